#!/bin/bash
# offline set-up: nothing is fetched; create scratch dirs and byte-check the harness
cd "$(dirname "$0")" || exit 1
mkdir -p .work/cwd evidence replays
/venv/bin/python - <<'PY'
import ast, glob, sys
for f in glob.glob("simcore/*.py") + glob.glob("engines/*.py"):
    ast.parse(open(f).read(), f)
print("harness sources parse")
PY
