"""Delta debugging over the recorded operation list, then argument and configuration simplification.
A candidate is kept only if the *same* oracle with the same signature fails."""
import copy
import time as _time


def _ddmin_list(items, test, deadline):
    n = 2
    items = list(items)
    while len(items) >= 1 and _time.time() < deadline:
        if len(items) == 1:
            if test([]):
                return []
            return items
        chunk = max(1, len(items) // n)
        subsets = [items[i:i + chunk] for i in range(0, len(items), chunk)]
        reduced = False
        for i in range(len(subsets)):
            if _time.time() >= deadline:
                return items
            comp = [x for j, s in enumerate(subsets) if j != i for x in s]
            if test(comp):
                items = comp
                n = max(n - 1, 2)
                reduced = True
                break
        if not reduced:
            if n >= len(items):
                break
            n = min(len(items), n * 2)
    return items


def minimise(check, sched, test, wall=60.0):
    deadline = _time.time() + wall
    best = copy.deepcopy(sched)
    key = check.ops_key
    if isinstance(best.get(key), list) and best[key]:
        fixed = getattr(check, "fixed_prefix", 0)
        head, tail = best[key][:fixed], best[key][fixed:]

        def t(ops):
            c = copy.deepcopy(best)
            c[key] = head + ops
            return test(c)
        tail = _ddmin_list(tail, t, deadline)
        best[key] = head + tail
    # argument / configuration simplification to a fixpoint
    changed = True
    while changed and _time.time() < deadline:
        changed = False
        for cand in check.simplify(copy.deepcopy(best)):
            if _time.time() >= deadline:
                break
            if cand == best:
                continue
            try:
                ok = test(cand)
            except Exception:
                ok = False
            if ok:
                best = cand
                changed = True
                break
    return best
