"""Seams the simulator owns: clocks, global PRNGs, persistence (SimFS), stdout.

Installed from the harness; nothing in /repo changes for them.
"""
import contextlib, io, os, random, sys
import time as _real_time


class SimClock:
    """The only clock library code can read. Fixed tick per read plus seeded forward jumps."""

    def __init__(self):
        self.reset()

    def reset(self, t0=1_000_000.0, tick=0.001, jumps=None):
        self.t = t0
        self.t0 = t0
        self.tick = tick
        self.reads = 0
        self.jumps = jumps or {}     # read index -> seconds
        self.jumped = 0

    def _adv(self):
        self.reads += 1
        self.t += self.tick
        j = self.jumps.get(self.reads)
        if j:
            self.t += j
            self.jumped += 1
        return self.t

    def time(self):
        return self._adv()

    def perf_counter(self):
        return self._adv()

    def time_ns(self):
        return int(self._adv() * 1e9)

    def elapsed(self):
        return self.t - self.t0

    def __getattr__(self, name):     # sleep, strftime, ... : the real module (never used by checked code paths)
        return getattr(_real_time, name)

    def __reduce__(self):            # a pickled reference resolves to the process-wide clock
        return (_get_clock, ())


CLOCK = SimClock()


def _get_clock():
    return CLOCK


_LIB_TIME_MODULES = ["sparseSpACE.StandardCombi", "sparseSpACE.spatiallyAdaptiveBase",
                     "sparseSpACE.spatiallyAdaptiveSingleDimension2", "sparseSpACE.GridOperation",
                     "sparseSpACE.Utils", "sparseSpACE.DEMachineLearning", "sparseSpACE.spatiallyAdaptiveExtendSplit",
                     "sparseSpACE.spatiallyAdaptiveCell", "sparseSpACE.DimAdaptiveCombi",
                     "sparseSpACE.RefinementContainer", "sparseSpACE.RefinementObject", "sparseSpACE.Grid",
                     "sparseSpACE.Function", "sparseSpACE.ErrorCalculator", "sparseSpACE.Extrapolation"]


def install_clock():
    """Rebind the module-level names `time` / `timing` of every imported library module."""
    n = 0
    for name, mod in list(sys.modules.items()):
        if not name.startswith("sparseSpACE"):
            continue
        d = getattr(mod, "__dict__", None)
        if d is None:
            continue
        if d.get("time") is _real_time:
            d["time"] = CLOCK
            n += 1
        t = d.get("timing")
        if t is _real_time.time_ns or t is _real_time.time:
            d["timing"] = CLOCK.time_ns
            n += 1
    return n


def seed_global_prngs(rk: str):
    import numpy as np
    s = int(rk, 16)
    random.seed(s)
    np.random.seed(s % (2 ** 32))


# ---------------------------------------------------------------------- SimFS

class SimFSFault(OSError):
    pass


class SimFS:
    """In-memory file system with a write-fault plan.

    plan[path] in {None, ("torn", n), ("short", n), ("enospc",), ("lost",)}:
      torn   - the write is cut after n bytes and the writer gets an OSError (a file opened unbuffered first gets a short
               count back from write(), as a raw file does, and the OSError only at its next write)
      short  - the write reports success but only a prefix of n bytes is kept
      enospc - OSError at the first write, an empty file is left behind
      lost   - the write reports success, no file exists afterwards
    """

    def __init__(self):
        self.files = {}
        self.plan = {}
        self.fired = []

    def open(self, name, mode="r", *a, **k):
        fs = self
        name = str(name)
        if "w" in mode:
            fault = self.plan.pop(name, None)
            # a raw file object (buffering=0) may accept fewer bytes than it was given and says so through write()'s return
            # value; a buffered one (the default) retries and raises. The same device fault shows differently to the two.
            raw = (a[0] if a else k.get("buffering", -1)) == 0

            class W(io.BytesIO):
                def __init__(s):
                    super().__init__()
                    s._n = 0
                    s._dead = False

                def write(s, data):
                    if fault and fault[0] == "enospc":
                        fs.files[name] = b""
                        fs.fired.append(("enospc", name))
                        raise SimFSFault(28, "No space left on device (simulated)")
                    if fault and fault[0] == "torn" and raw and s._n + len(data) > fault[1] and s._n < fault[1]:
                        keep = fault[1] - s._n
                        super().write(bytes(data)[:keep])
                        s._n += keep
                        fs.files[name] = s.getvalue()
                        fs.fired.append(("torn", name, fault[1]))
                        return keep          # short count: the caller has to notice
                    if fault and fault[0] == "torn" and s._n + len(data) > fault[1]:
                        keep = max(0, fault[1] - s._n)
                        super().write(bytes(data)[:keep])
                        fs.files[name] = s.getvalue()
                        fs.fired.append(("torn", name, fault[1]))
                        s._dead = True
                        raise SimFSFault(5, "Input/output error (simulated torn write)")
                    s._n += len(data)
                    return super().write(data)

                def close(s):
                    if not s.closed and not s._dead:
                        v = s.getvalue()
                        if fault and fault[0] == "short":
                            v = v[:fault[1]]
                            fs.fired.append(("short", name, fault[1]))
                        if fault and fault[0] == "lost":
                            fs.fired.append(("lost", name))
                            fs.files.pop(name, None)
                        else:
                            fs.files[name] = v
                    super().close()

            return W()
        if name not in self.files:
            raise FileNotFoundError(2, "No such file (simulated)", name)
        return io.BytesIO(self.files[name])


FS = SimFS()


def install_fs():
    import sparseSpACE.StandardCombi as SC
    SC.open = FS.open


class _Null(io.TextIOBase):
    def write(self, s):
        return len(s)


_NULL = _Null()


@contextlib.contextmanager
def quiet():
    old = sys.stdout
    sys.stdout = _NULL
    try:
        yield
    finally:
        sys.stdout = old
