"""Process bootstrap: environment, scratch cwd, repository path, silent plotting.

Nothing here draws from a PRNG or reads a clock that a run depends on.
"""
import os, sys

VERIF_DIR = os.path.dirname(os.path.dirname(os.path.abspath(__file__)))
for _v in ("OMP_NUM_THREADS", "OPENBLAS_NUM_THREADS", "MKL_NUM_THREADS", "NUMEXPR_NUM_THREADS"):
    os.environ[_v] = "1"
os.environ.setdefault("MPLBACKEND", "Agg")
os.environ["PYTHONDONTWRITEBYTECODE"] = "1"
sys.dont_write_bytecode = True

REPO = os.environ.get("VERIF_REPO", "/repo")
if VERIF_DIR not in sys.path:
    sys.path.insert(0, VERIF_DIR)
# the working tree named by VERIF_REPO (default /repo) wins over any installed copy
sys.path.insert(0, REPO)

WORK = os.path.join(VERIF_DIR, ".work")
_scratch = os.path.join(WORK, "cwd")
os.makedirs(_scratch, exist_ok=True)
os.chdir(_scratch)          # `log_sg` of sparseSpACE.Utils lands here

import warnings
warnings.filterwarnings("ignore")
import logging
logging.disable(logging.CRITICAL)   # the library's file logger is not an observable
import matplotlib
matplotlib.use("Agg")


def repo_head():
    import subprocess
    try:
        h = subprocess.run(["git", "-C", REPO, "rev-parse", "--short", "HEAD"], capture_output=True, text=True,
                           timeout=20).stdout.strip()
        d = subprocess.run(["git", "-C", REPO, "status", "--porcelain", "--untracked-files=no"], capture_output=True,
                           text=True, timeout=20).stdout.strip()
        return h + ("-dirty" if d else "")
    except Exception:
        return "unknown"


def assert_repo_used():
    import sparseSpACE
    p = os.path.dirname(os.path.abspath(sparseSpACE.__file__))
    want = os.path.join(os.path.abspath(REPO), "sparseSpACE")
    if p != want:
        raise RuntimeError("sparseSpACE imported from %s, expected %s" % (p, want))
