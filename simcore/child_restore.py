"""Fresh-interpreter restore: reads a pickled instance (base64 on stdin), installs the seams, continues the
refinement to the given limit and prints the snapshot as JSON. Only durable bytes cross the process boundary."""
from . import boot  # noqa
import base64, json, sys


def main():
    req = json.loads(sys.stdin.readline())
    data = base64.b64decode(req["bytes"])
    from . import seams
    import sparseSpACE.StandardCombi as SC
    import sparseSpACE.spatiallyAdaptiveSingleDimension2, sparseSpACE.spatiallyAdaptiveExtendSplit, sparseSpACE.spatiallyAdaptiveCell  # noqa
    import simcore.env  # noqa
    seams.install_clock()
    seams.install_fs()
    seams.seed_global_prngs(req["rk"])
    seams.FS.files["mem://child"] = data
    from engines.resume_checks import snapshot_of, query_points, query_sequence
    with seams.quiet():
        sa = SC.StandardCombi.restore_from_file("mem://child")
        P = query_points(req["rk"], req["a"], req["b"], req["npts"])
        vals = query_sequence(SC.StandardCombi.restore_from_file("mem://child"), P, req.get("interp", True), clone=False)
        ret = sa.continue_adaptive_refinement(tol=req.get("tol", -1.0), max_evaluations=req["final"])
        snap = snapshot_of(sa, req["strategy"], ret)
    sys.stdout.write("\n@@SNAP@@" + json.dumps({"snap": snap, "vals": vals}) + "\n")
    sys.stdout.flush()


if __name__ == "__main__":
    main()
