"""Determinism self-tests: same seed twice, fresh interpreter, other PYTHONHASHSEED, 1 vs 16 workers.
Every engine's per-run event-log digests must be identical in all of them."""
from . import boot  # noqa
import glob, json, os, subprocess, sys


def digests(pid, seed, n, tier="quick"):
    from .cli import load
    from . import runner, seams
    from .ctx import load_known
    from .seeds import run_key
    chk = load(pid)
    chk.setup(); seams.install_clock(); seams.install_fs()
    known = [k for k in load_known() if k.prop == pid]
    out = []
    for idx in range(n):
        rk = run_key(seed, pid, idx)
        s = chk.gen(rk, tier, idx)
        s.update(rk=rk, seed=seed, run=idx, property=pid)
        r = runner.run_one(chk, s, known)
        out.append((idx, r["digest"], r["viol"] and r["viol"]["oracle"], bool(r["error"]), len(r["states"])))
    return out


def main(pids):
    n = int(os.environ.get("VERIF_SELFTEST_RUNS", "12"))
    seeds = [int(x) for x in os.environ.get("VERIF_SELFTEST_SEEDS", "0,1,7").split(",")]
    bad = 0
    for pid in pids:
        for seed in seeds:
            base = digests(pid, seed, n)
            again = digests(pid, seed, n)
            res = {"same-process": base == again}
            for hs in ("0", "12345", "random"):
                env = dict(os.environ, PYTHONHASHSEED=hs)
                p = subprocess.run([sys.executable, "-m", "simcore.selftest", "--child", pid, str(seed), str(n)],
                                   cwd=boot.VERIF_DIR, env=env, capture_output=True, text=True, timeout=3600)
                try:
                    child = [tuple(x) for x in json.loads(p.stdout.strip().splitlines()[-1])]
                except Exception:
                    child = p.stderr[-500:]
                res["fresh-interpreter-hashseed-" + hs] = child == base
            ok = all(res.values())
            bad += 0 if ok else 1
            print("selftest %s seed=%d runs=%d %s %s" % (pid, seed, n, "OK" if ok else "DIVERGED", res), flush=True)
    if bad:
        print("HARNESS-ERROR determinism self-test failed")
        return 2
    return 0


def validate_all():
    """validate MANIFEST.json and evidence/*.json with the real JSON-schema validator (python3-vt)"""
    code = r'''
import json, sys, glob, jsonschema
ms = json.load(open("/root/.vp/MANIFEST.schema.json")); es = json.load(open("/root/.vp/EVIDENCE.schema.json"))
bad = 0
try:
    jsonschema.validate(json.load(open("MANIFEST.json")), ms); print("MANIFEST.json valid")
except Exception as e:
    bad += 1; print("MANIFEST.json INVALID", str(e)[:300])
for f in sorted(glob.glob("evidence/*.json")):
    try:
        jsonschema.validate(json.load(open(f)), es); print(f, "valid")
    except Exception as e:
        bad += 1; print(f, "INVALID", str(e)[:300])
sys.exit(1 if bad else 0)
'''
    p = subprocess.run(["python3-vt", "-c", code], cwd=boot.VERIF_DIR)
    return p.returncode


if __name__ == "__main__":
    if len(sys.argv) > 1 and sys.argv[1] == "--child":
        print(json.dumps(digests(sys.argv[2], int(sys.argv[3]), int(sys.argv[4]))))
        sys.stdout.flush()
        os._exit(0)
