from . import boot  # noqa: F401
import importlib, json, os, sys

REGISTRY = {
    "C01": "engines.scheme_sim",
    "C03": "engines.dimwise_checks",
    "C04": "engines.dimwise_checks",
    "C05": "engines.dimwise_checks",
    "C06": "engines.dimwise_checks",
    "C07": "engines.extendsplit_checks",
    "C12": "engines.function_sim",
    "C13": "engines.stop_checks",
    "C15": "engines.uq_sim",
    "C17": "engines.de_reuse_sim",
    "C18": "engines.dataset_sim",
    "C19": "engines.classification_sim",
    "C14": "engines.resume_checks",
}


def load(pid):
    mod = importlib.import_module(REGISTRY[pid])
    chk = getattr(mod, "CHECKS", None)
    if chk:
        return chk[pid]()
    return mod.CHECK()


def main(argv):
    if len(argv) < 2:
        print("usage: check <Cxx> quick|thorough | replay <file> | selftest [Cxx...] | validate")
        return 2
    cmd = argv[1]
    from . import runner
    if cmd == "replay":
        path = argv[2]
        if not os.path.isabs(path):
            for base in (os.environ.get("VERIF_CWD", ""), boot.VERIF_DIR):
                if base and os.path.exists(os.path.join(base, path)):
                    path = os.path.join(base, path)
                    break
        doc = json.load(open(path))
        return runner.replay(load(doc["property"]), path)
    if cmd == "selftest":
        from . import selftest
        return selftest.main(argv[2:] or sorted(REGISTRY))
    if cmd == "validate":
        from . import selftest
        return selftest.validate_all()
    pid = cmd
    tier = argv[2] if len(argv) > 2 else os.environ.get("VERIF_TIER", "quick")
    if pid not in REGISTRY:
        print("HARNESS-ERROR unknown property %s" % pid)
        return 2
    return runner.run_check(load(pid), tier)


if __name__ == "__main__":
    try:
        rc = main(sys.argv)
    except SystemExit:
        raise
    except BaseException:
        import traceback
        traceback.print_exc()
        print("HARNESS-ERROR uncaught exception in the harness")
        rc = 2
    sys.stdout.flush()
    os._exit(rc)
