"""Run context: event log with digest, state digests, fault / probe counters, violations,
known-findings matching."""
import hashlib, json, os, re
from collections import Counter, deque

from .seeds import digest

VERIF_DIR = os.path.dirname(os.path.dirname(os.path.abspath(__file__)))
KNOWN_FILE = os.path.join(VERIF_DIR, "known_findings.txt")


class Violation(Exception):
    def __init__(self, oracle, signature, msg):
        super().__init__("%s: %s" % (oracle, msg))
        self.oracle = oracle
        self.signature = dict(signature)
        self.signature["oracle"] = oracle
        self.msg = msg


class Excluded(Exception):
    """configuration / schedule the library documents or asserts as unsupported"""


class RunTimeout(Exception):
    pass


class KnownFinding:
    def __init__(self, prop, signature, text, lineno):
        self.prop, self.signature, self.text, self.lineno = prop, signature, text, lineno

    def matches(self, prop, sig):
        if prop != self.prop:
            return False
        for k, v in self.signature.items():
            if sig.get(k) != v:
                return False
        return True


_known_re = re.compile(r"^known:\s+property=(\S+)\s+signature=(\{.*?\})\s+(.*)$")


def load_known(path=KNOWN_FILE):
    out = []
    if not os.path.exists(path):
        return out
    for n, line in enumerate(open(path), 1):
        line = line.rstrip("\n")
        if not line.startswith("known:"):
            continue
        # the signature is the first balanced {...} after 'signature='
        i = line.index("signature=") + len("signature=")
        depth = 0
        j = i
        while j < len(line):
            if line[j] == "{":
                depth += 1
            elif line[j] == "}":
                depth -= 1
                if depth == 0:
                    break
            j += 1
        sig = json.loads(line[i:j + 1])
        prop = re.search(r"property=(\S+)", line).group(1)
        out.append(KnownFinding(prop, sig, line[j + 1:].strip(), n))
    return out


class Ctx:
    """Everything a run records. Logging never draws and never reads a clock."""

    def __init__(self, pid, known=None, keep_log=False):
        self.pid = pid
        self.known = known if known is not None else []
        self._h = hashlib.sha256()
        self.tail = deque(maxlen=400) if not keep_log else []
        self.states = set()
        self.initial = None
        self.faults = Counter()
        self.probes = Counter()
        self.side = Counter()        # stateless side-oracle evaluations, counted apart from simulated steps
        self.oracles = Counter()     # oracle evaluations per oracle id
        self.steps = 0
        self.sim_s = 0.0
        self.known_hits = Counter()  # line number in known_findings.txt -> hits
        self.tainted = set()         # oracle families switched off for the rest of the run after a known finding
        self.real = set()
        self.stub = set()

    # -- log ------------------------------------------------------------
    def ev(self, *items):
        line = repr(items)
        self._h.update(line.encode())
        self._h.update(b"\n")
        self.tail.append(line)

    def log_digest(self):
        return self._h.hexdigest()[:32]

    # -- coverage -------------------------------------------------------
    def state(self, obj):
        d = digest(obj)
        if self.initial is None:
            self.initial = d
        elif d != self.initial:
            self.states.add(d)
        return d

    def step(self, n=1):
        self.steps += n

    def fault(self, kind, n=1):
        self.faults[kind] += n

    def probe(self, name, n=1):
        self.probes[name] += n

    def ok(self, oracle, n=1):
        self.oracles[oracle] += n

    # -- violations -----------------------------------------------------
    def violate(self, oracle, sig, msg, taint=None):
        """Raise Violation unless the signature is a listed known finding; then count it, optionally
        switch the named oracle family off for the rest of this run, and return."""
        s = dict(sig)
        s["oracle"] = oracle
        for k in self.known:
            if k.matches(self.pid, s):
                self.known_hits[k.lineno] += 1
                self.ev("known-finding", k.lineno, oracle)
                if taint:
                    self.tainted.add(taint)
                return
        self.ev("violation", oracle, sorted(s.items(), key=str))
        raise Violation(oracle, sig, msg)
