"""The simulated environment: the integrand and the error estimator the library calls back into.

These classes live in an importable module so that dill stores them by reference and a fresh
interpreter can restore a saved instance. Answers are keyed draws: a function of the question only.
"""
import math
from .seeds import H, Hs
from sparseSpACE.Function import Function
from sparseSpACE.ErrorCalculator import ErrorCalculator


# ------------------------------------------------------------------ exactness probes (R-hier pieces)

def hat1d(x, l, i, a, b):
    """dyadic hat of level l, index i on [a,b]; level 0: the two boundary hats (linear on the interval)"""
    t = (x - a) / (b - a)
    if l == 0:
        return 1.0 - t if i == 0 else t
    h = 2.0 ** -l
    return max(0.0, 1.0 - abs(t - i * h) / h)


def hat1d_int(l, i, a, b):
    return 0.5 * (b - a) if l == 0 else (b - a) * 2.0 ** -l


def probe_value(spec, x, a, b):
    kind = spec[0]
    if kind == "hat":
        v = 1.0
        for d, (l, i) in enumerate(spec[1]):
            v *= hat1d(x[d], l, i, a[d], b[d])
        return v
    if kind == "combo":
        return sum(c * probe_value(["hat", hs], x, a, b) for c, hs in spec[1])
    if kind == "lin":
        c = spec[1]
        return c[0] + sum(c[d + 1] * x[d] for d in range(len(x)))
    if kind == "ml":
        v = 1.0
        for d, (al, be) in enumerate(spec[1]):
            v *= al * x[d] + be
        return v
    if kind == "const":
        return spec[1]
    raise ValueError(kind)


def probe_integral(spec, a, b):
    kind = spec[0]
    dim = len(a)
    if kind == "hat":
        v = 1.0
        for d, (l, i) in enumerate(spec[1]):
            v *= hat1d_int(l, i, a[d], b[d])
        return v
    if kind == "combo":
        return sum(c * probe_integral(["hat", hs], a, b) for c, hs in spec[1])
    vol = 1.0
    for d in range(dim):
        vol *= (b[d] - a[d])
    if kind == "lin":
        c = spec[1]
        return vol * (c[0] + sum(c[d + 1] * 0.5 * (a[d] + b[d]) for d in range(dim)))
    if kind == "ml":
        v = 1.0
        for d, (al, be) in enumerate(spec[1]):
            v *= al * 0.5 * (b[d] ** 2 - a[d] ** 2) + be * (b[d] - a[d])
        return v
    if kind == "const":
        return spec[1] * vol
    raise ValueError(kind)


class SimFunction(Function):
    """Integrand played by the simulator: `nnoise` components that are arbitrary per point (keyed hash,
    optional jump) followed by analytic probe components. Subclass of the library's Function, so the real
    __call__ / cache / vectorised paths run; only eval is the stub. Counts distinct points itself."""
    CALL_BUDGET = 1500000

    def __init__(self, key, nnoise=1, probes=(), a=None, b=None, jump=None, offset=0.0, symmetric=False):
        super().__init__()
        self.symmetric = symmetric      # component 0 becomes a smooth, coordinate-symmetric peak (twin errors of equal size)
        self.key = key
        self.nnoise = nnoise
        self.probes = [list(p) for p in probes]
        self.a = None if a is None else [float(x) for x in a]
        self.b = None if b is None else [float(x) for x in b]
        self.jump = jump
        self.offset = offset
        self.seen = set()
        self.calls = 0

    def output_length(self):
        return self.nnoise + len(self.probes)

    def eval(self, coordinates):
        p = tuple(float(x) for x in coordinates)
        self.seen.add(p)
        self.calls += 1
        if self.calls > self.CALL_BUDGET:
            # deterministic cost budget of a run (a step cap on the environment's side): histories whose single refinement step
            # evaluates component grids of millions of points (observed: the automatic split/extend estimate of an area with a large
            # coarsening value builds the parent scheme at lmax + coarsening) are cut and counted as excluded, independent of machine load
            from simcore.ctx import Excluded
            raise Excluded("integrand evaluation budget of the run exhausted")
        return self.peek(p)

    def peek(self, p):
        """value without counting (used by the harness' oracles only)"""
        p = tuple(float(x) for x in p)
        out = []
        for j in range(self.nnoise):
            if j == 0 and getattr(self, "symmetric", False):
                t = sum((x - lo) / (hi - lo) for x, lo, hi in zip(p, self.a, self.b))
                out.append((1.0 + 2.0 * t) ** (-len(p) - 1) + self.offset)
                continue
            v = Hs(self.key, "f", j, p) + self.offset
            if self.jump is not None and p[0] > self.jump:
                v += 1.0
            out.append(v)
        for spec in self.probes:
            out.append(probe_value(spec, p, self.a, self.b))
        return out


class SimErrorCalculator(ErrorCalculator):
    """Error estimator played by the simulator (dimension-wise intervals and extend-split / cell areas).

    mode: 'mix' (zero / tie / uniform by keyed class draw), 'equal' (all 1.0), 'zero' (all 0.0).
    With use_epoch the evaluation counter enters the key (only in runs that are never resumed)."""

    def __init__(self, key, p_zero=0.3, p_tie=0.1, mode="mix", use_epoch=False, bias=None, domain=None, scale=1.0, near=None):
        super().__init__(print_level=100, log_level=100)
        self.key = key
        # scale: every answer is multiplied by it (benefits of order 1e-12 or 1e7 are as legal as benefits of order 1);
        # near: None | (margin, p): with probability p the answer is margin * (1 -+ 2^-27) - just below / just above the
        # margin fraction of a tie-class answer (which is the largest answer whenever one is present)
        self.scale = scale
        self.near = near
        # bias: None | ("right" | "left", k): answers of the dimension-wise intervals are weighted by the interval's relative
        # position to the power k, which makes lopsided refinement trees (the ones rebalancing rotates near the top)
        self.bias = bias
        self.domain = domain
        self.p_zero = p_zero
        self.p_tie = p_tie
        self.mode = mode
        self.use_epoch = use_epoch
        self.epoch = 0
        self.asked = 0

    def question(self, o):
        if hasattr(o, "this_dim"):
            q = ("iv", int(o.this_dim), float(o.start).hex(), float(o.end).hex())
        else:
            q = ("box", tuple(float(x).hex() for x in o.start), tuple(float(x).hex() for x in o.end))
        if self.use_epoch:
            q = q + (self.epoch,)
        return q

    def answer(self, q):
        if self.mode == "equal":
            return 1.0
        if self.mode == "zero":
            return 0.0
        r = H(self.key, "cls", q)
        if r < self.p_zero:
            return 0.0
        if r < self.p_zero + self.p_tie:
            return 1.0
        near = getattr(self, "near", None)
        if near and r < self.p_zero + self.p_tie + near[1]:
            return near[0] * (1.0 - 2.0 ** -27 if H(self.key, "side", q) < 0.5 else 1.0 + 2.0 ** -27)
        return H(self.key, "val", q)

    def calc_error(self, refine_object, norm, volume_weights=None):
        self.asked += 1
        v = self.answer(self.question(refine_object)) * getattr(self, "scale", 1.0)
        bias = getattr(self, "bias", None)
        if bias and bias[0] == "window":
            # clustered driver: per dimension every interval that overlaps a window of the domain answers 1 (ties: with a margin
            # below or at 1 the whole cluster is refined in every step), everything else is damped
            if hasattr(refine_object, "this_dim"):
                d = int(refine_object.this_dim)
                lo, hi = self.domain[0][d], self.domain[1][d]
                c, w = bias[1][d]
                if len(bias) > 3 and bias[3] == "wander" and self.use_epoch:
                    # the cluster moves and breathes from step to step (keyed by dimension and evaluation counter)
                    c = c + (H(self.key, "wc", d, self.epoch) - 0.5) * w
                    w = w * (0.5, 1.0, 1.0, 2.0)[int(H(self.key, "ww", d, self.epoch) * 4) % 4]
                s0, s1 = (float(refine_object.start) - lo) / (hi - lo), (float(refine_object.end) - lo) / (hi - lo)
                inside = s1 > c - 0.5 * w and s0 < c + 0.5 * w
                return getattr(self, "scale", 1.0) if inside else v * bias[2]
            return v
        if bias and bias[0] == "focus":
            # sharply localised driver: the interval (area) that contains the target point answers 1, everything else is damped
            if hasattr(refine_object, "this_dim"):
                d = int(refine_object.this_dim)
                lo, hi = self.domain[0][d], self.domain[1][d]
                x = lo + (hi - lo) * bias[1][d]
                inside = float(refine_object.start) <= x < float(refine_object.end)
            else:
                inside = all(float(s) <= self.domain[0][d] + (self.domain[1][d] - self.domain[0][d]) * bias[1][d] < float(e)
                             for d, (s, e) in enumerate(zip(refine_object.start, refine_object.end)))
            if inside and len(bias) > 3 and bias[3] == "uneven":
                # the focus intervals of the dimensions answer differently (keyed by the interval): with a margin near 1 one
                # dimension is refined alone in a step and the others follow later - maximum levels are raised in an uneven order
                return getattr(self, "scale", 1.0) * (0.3 + 0.7 * H(self.key, "fw", self.question(refine_object)))
            return getattr(self, "scale", 1.0) if inside else v * bias[2]
        if bias and hasattr(refine_object, "this_dim") and getattr(self, "domain", None):
            d = int(refine_object.this_dim)
            lo, hi = self.domain[0][d], self.domain[1][d]
            t = (0.5 * (float(refine_object.start) + float(refine_object.end)) - lo) / (hi - lo)
            v *= (t if bias[0] == "right" else 1.0 - t) ** bias[1]
        return v


class AffineModel(Function):
    """UQ model played by the simulator: [g, c*g + e, const] with g arbitrary per point (keyed hash, bounded) so that the
    original and the affinely transformed model share every grid of a refinement history"""

    def __init__(self, key, c, e, const, smooth=False):
        super().__init__()
        self.key, self.c, self.e, self.const, self.smooth = key, c, e, const, smooth
        self.seen = set()

    def output_length(self):
        return 3

    def base(self, p):
        if self.smooth:
            return math.sin(sum((d + 1.3) * math.atan(x) for d, x in enumerate(p))) + 0.5
        return Hs(self.key, "uq", p)

    def eval(self, coordinates):
        p = tuple(float(x) for x in coordinates)
        self.seen.add(p)
        g = self.base(p)
        return [g, self.c * g + self.e, self.const]
