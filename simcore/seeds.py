"""One integer decides everything: run keys, purpose-labelled streams, keyed draws."""
import hashlib, random, struct


def _h(s: str, n=8) -> bytes:
    return hashlib.blake2b(s.encode(), digest_size=n).digest()


def run_key(seed: int, prop: str, run: int) -> str:
    return _h("%d|%s|%d" % (seed, prop, run), 8).hex()


def stream(rk: str, label: str) -> random.Random:
    return random.Random(int.from_bytes(_h(rk + "|" + label, 16), "big"))


def fkey(x) -> str:
    """canonical key of a float (exact)"""
    return float(x).hex()


def H(*key) -> float:
    """keyed draw in [0,1): a function of the question only"""
    return struct.unpack("<Q", _h(repr(key), 8))[0] / 2.0 ** 64


def Hs(*key) -> float:
    """keyed draw in [-1,1)"""
    return 2.0 * H(*key) - 1.0


def digest(obj) -> str:
    return hashlib.blake2b(repr(obj).encode(), digest_size=8).hexdigest()
