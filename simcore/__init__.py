"""simcore - hand-written deterministic simulator core for the sparseSpACE checks.

Import order matters: `simcore.boot` must be imported before numpy / sparseSpACE so that
BLAS thread counts, the scratch working directory and the repository path are fixed first.
"""
