"""Batch runner: seeded search over schedules on a fork pool, watchdogs, minimisation, replay
files, known-findings report, evidence. Exit codes: 0 held, 1 VIOLATION, 2 HARNESS-ERROR."""
from . import boot  # noqa: F401  (must be first)
import copy, faulthandler, json, os, signal, sys, traceback
import time as _time
import multiprocessing as mp
from collections import Counter
from concurrent.futures import ProcessPoolExecutor, as_completed

from .ctx import Ctx, Violation, Excluded, RunTimeout, load_known
from .seeds import run_key
from . import seams
from .ddmin import minimise

VERIF_DIR = boot.VERIF_DIR
REPLAY_DIR = os.environ.get("VERIF_REPLAY_DIR") or os.path.join(VERIF_DIR, "replays")
EVID_DIR = os.path.join(VERIF_DIR, "evidence")


class Check:
    """Base class of a property check (one engine configuration deciding one property)."""
    pid = "C00"
    level = "exploration"
    technique = "deterministic simulation, seeded schedule search"
    runs = {"quick": 1000, "thorough": 10000}
    budget_s = {"quick": 60.0, "thorough": 600.0}
    run_timeout_s = 60.0
    block = 16
    rule = ""
    real = []
    stub = []
    assumptions = []
    excluded_configs = []
    ops_key = "ops"
    min_runs = 20
    library_exceptions_are_violations = True

    def setup(self):
        pass

    def gen(self, rk, tier, idx):
        raise NotImplementedError

    def execute(self, sched, ctx):
        raise NotImplementedError

    def simplify(self, sched):
        """yield simpler variants of the configuration (ops untouched)"""
        return []

    def extra_evidence(self, agg):
        return {}


# ------------------------------------------------------------------ one run

def _alarm(signum, frame):
    if os.environ.get("VERIF_TRACE_TIMEOUT"):      # debugging aid: where was the run when its wall-clock guard fired
        import traceback
        sys.__stderr__.write("".join(traceback.format_stack(frame)[-14:]))
    raise RunTimeout()


def _library_frame(e):
    """innermost traceback frame that lies in the repository under test, or None"""
    root = os.path.join(os.path.abspath(boot.REPO), "sparseSpACE") + os.sep
    tb = e.__traceback__
    found = None
    while tb is not None:
        fn = tb.tb_frame.f_code.co_filename
        if os.path.abspath(fn).startswith(root):
            found = (os.path.basename(fn), tb.tb_frame.f_code.co_name, tb.tb_lineno)
        tb = tb.tb_next
    return found


def run_one(check, sched, known, keep_log=False, timeout=None):
    """Execute one schedule. Returns a JSON-able result dict."""
    ctx = Ctx(check.pid, known, keep_log=keep_log)
    rk = sched["rk"]
    seams.CLOCK.reset()
    seams.FS.__init__()
    seams.seed_global_prngs(rk)
    ctx.ev("seed-material", sched.get("seed"), check.pid, sched.get("run"), rk)
    res = {"run": sched.get("run"), "viol": None, "excluded": None, "timeout": False, "error": None}
    t = timeout or float(os.environ.get("VERIF_RUN_TIMEOUT", "0")) or check.run_timeout_s
    old = signal.signal(signal.SIGALRM, _alarm)
    signal.setitimer(signal.ITIMER_REAL, t)
    try:
        with seams.quiet():
            check.execute(sched, ctx)
    except Violation as v:
        res["viol"] = {"oracle": v.oracle, "signature": v.signature, "msg": v.msg[:2000]}
    except Excluded as e:
        res["excluded"] = str(e)[:200]
    except RunTimeout:
        res["timeout"] = True
    except Exception as e:
        lib = _library_frame(e) if (check.library_exceptions_are_violations and not getattr(e, "harness", False)) else None
        if lib is not None and not isinstance(e, MemoryError):
            # the operation was one the property requires to succeed (the engine only issues such operations
            # outside its explicit invalid_request handling): an exception raised inside the library is a violation
            sig = {"exception": type(e).__name__, "function": lib[1], "file": lib[0]}
            sig.update(getattr(ctx, "exc_sig", {}) or {})
            try:
                ctx.violate("operation_raises", sig, "%s: %s (in %s:%s %s)\n%s" % (
                    type(e).__name__, str(e)[:300], lib[0], lib[2], lib[1], traceback.format_exc()[-1500:]))
            except Violation as v:
                res["viol"] = {"oracle": v.oracle, "signature": v.signature, "msg": v.msg[:2500]}
        else:  # harness exception: never a pass, never a VIOLATION
            res["error"] = "%s: %s\n%s" % (type(e).__name__, str(e)[:500], traceback.format_exc()[-3000:])
    finally:
        signal.setitimer(signal.ITIMER_REAL, 0)
        signal.signal(signal.SIGALRM, old)
    ctx.sim_s = seams.CLOCK.elapsed()
    if seams.CLOCK.jumped:
        ctx.fault("clock_jump", seams.CLOCK.jumped)
    res.update(digest=ctx.log_digest(), states=sorted(ctx.states), faults=dict(ctx.faults), probes=dict(ctx.probes),
               side=dict(ctx.side), oracles=dict(ctx.oracles), steps=ctx.steps, sim_s=ctx.sim_s,
               known_hits={str(k): v for k, v in ctx.known_hits.items()})
    if keep_log:
        res["log"] = list(ctx.tail)
    return res


# ------------------------------------------------------------------ pool

_G = {}


def _worker_block(args):
    lo, hi, seed, tier = args
    check, known, deadline = _G["check"], _G["known"], _G["deadline"]
    out = []
    skipped = 0
    faulthandler.enable()
    for idx in range(lo, hi):
        if _time.time() > deadline:
            skipped += hi - idx
            break
        rk = run_key(seed, check.pid, idx)
        try:
            sched = check.gen(rk, tier, idx)
            sched.update(rk=rk, seed=seed, run=idx, property=check.pid)
            r = run_one(check, sched, known)
        except Exception as e:
            r = {"run": idx, "viol": None, "excluded": None, "timeout": False,
                 "error": "gen: %s\n%s" % (e, traceback.format_exc()[-2000:]), "digest": "", "states": [],
                 "faults": {}, "probes": {}, "side": {}, "oracles": {}, "steps": 0, "sim_s": 0.0, "known_hits": {}}
            sched = None
        if r["viol"] or r["error"] or r["timeout"]:
            r["sched"] = sched
        elif idx < 3 or idx % 997 == 0:
            r["sample"] = sched
        out.append(r)
    return out, skipped


def same_violation(check, known, viol):
    want = (viol["oracle"], json.dumps(viol["signature"], sort_keys=True, default=str))

    def test(sched):
        r = run_one(check, sched, known, timeout=min(check.run_timeout_s, 30))
        v = r["viol"]
        return bool(v) and (v["oracle"], json.dumps(v["signature"], sort_keys=True, default=str)) == want
    return test


def write_replay(check, sched, viol, digest, minimised_from=None):
    os.makedirs(REPLAY_DIR, exist_ok=True)
    path = os.path.join(REPLAY_DIR, "%s-%s-%s.json" % (check.pid, sched.get("seed"), sched.get("run")))
    doc = {"property": check.pid, "oracle": viol["oracle"], "signature": viol["signature"], "message": viol["msg"],
           "schedule": sched, "log_digest": digest, "repo_head": boot.repo_head(),
           "minimised_from_ops": minimised_from}
    with open(path, "w") as f:
        json.dump(doc, f, indent=1, default=str)
    return path


def determinism_probe(check, known, seed, tier, n=2):
    """same seed twice in this process: event-log digests must be identical. Returns (message, violation) - when the two
    executions differ because one of them violates the property (state outside the run survived in the library), that is
    reported as a violation whose replay executes the schedule `repeat` times in one process."""
    for idx in range(n):
        rk = run_key(seed, check.pid, idx)
        ds = []
        rs = []
        for _ in range(2):
            sched = check.gen(rk, tier, idx)
            sched.update(rk=rk, seed=seed, run=idx, property=check.pid)
            s1 = json.dumps(sched, sort_keys=True, default=str)
            r = run_one(check, sched, known)
            rs.append((sched, r))
            ds.append((s1, r["digest"], r["viol"] and r["viol"]["oracle"], r["error"]))
        if ds[0] != ds[1]:
            if rs[0][1]["viol"] and rs[1][1]["viol"] and not rs[0][1]["error"] and not rs[1][1]["error"]:
                # both executions violate the property, but not alike (state outside the run survives in the library and
                # changes which clause fails first): the first execution's violation is reported
                sched, r = rs[0]
                r["viol"]["msg"] = ("[the second of two identical executions in one process violates differently (%s): state outside the "
                                    "run survives in the library] " % rs[1][1]["viol"]["oracle"]) + r["viol"]["msg"]
                return None, (dict(sched), r)
            for k, (sched, r) in enumerate(rs):
                if r["viol"] and not rs[1 - k][1]["viol"] and not r["error"]:
                    sched = dict(sched, repeat=k + 1)
                    r["viol"]["msg"] = ("[only in execution %d of 2 identical executions in one process: state outside the run "
                                        "(module / class level) survives in the library] " % (k + 1)) + r["viol"]["msg"]
                    return None, (sched, r)
            return "run %d of seed %d is not reproducible: %r vs %r" % (idx, seed, ds[0][1:], ds[1][1:]), None
    return None, None


def run_check(check, tier, seed=None, nruns=None, workers=None, budget=None, write_evidence=True, quiet_out=False):
    t0 = _time.time()
    seed = int(os.environ.get("VERIF_SEED", "0")) if seed is None else seed
    workers = workers or int(os.environ.get("VERIF_WORKERS", "0")) or min(16, os.cpu_count() or 1)
    nruns = nruns or int(os.environ.get("VERIF_RUNS", "0")) or check.runs[tier]
    budget = budget or float(os.environ.get("VERIF_BUDGET", "0")) or check.budget_s[tier]
    known = [k for k in load_known() if k.prop == check.pid]
    out = (lambda *a: None) if quiet_out else (lambda *a: print(*a, flush=True))
    try:
        check.setup()
        boot.assert_repo_used()
        seams.install_clock()
        seams.install_fs()
    except Exception:
        out("HARNESS-ERROR property=%s setup failed\n%s" % (check.pid, traceback.format_exc()))
        return 2
    out("check %s tier=%s seed=%d runs<=%d workers=%d budget=%.0fs repo=%s head=%s" % (
        check.pid, tier, seed, nruns, workers, budget, boot.REPO, boot.repo_head()))
    try:
        msg, pviol = determinism_probe(check, known, seed, tier)
    except Exception:
        msg, pviol = "determinism probe crashed\n" + traceback.format_exc(), None
    if msg:
        out("HARNESS-ERROR property=%s %s" % (check.pid, msg))
        return 2
    if pviol:
        sched, r = pviol
        path = write_replay(check, sched, r["viol"], r["digest"])
        out("VIOLATION property=%s replay=%s" % (check.pid, path))
        out("  oracle=%s signature=%s\n  %s" % (r["viol"]["oracle"], json.dumps(r["viol"]["signature"], sort_keys=True, default=str), r["viol"]["msg"][:700]))
        return 1

    _G.update(check=check, known=known, deadline=t0 + budget)
    blocks = [(lo, min(lo + check.block, nruns), seed, tier) for lo in range(0, nruns, check.block)]
    agg = dict(runs=0, excluded=Counter(), timeouts=0, errors=[], viols=[], states=set(), faults=Counter(),
               probes=Counter(), side=Counter(), oracles=Counter(), steps=0, sim_s=0.0, known_hits=Counter(),
               samples=[], skipped=0, nontrivial_runs=0)
    hard_deadline = t0 + budget * 2.5 + 120
    broken = None
    ex = ProcessPoolExecutor(max_workers=workers, mp_context=mp.get_context("fork"))
    try:
        futs = [ex.submit(_worker_block, b) for b in blocks]
        for fu in as_completed(futs, timeout=max(1.0, hard_deadline - _time.time())):
            res, skipped = fu.result()
            agg["skipped"] += skipped
            for r in res:
                agg["runs"] += 1
                if r["excluded"]:
                    agg["excluded"][r["excluded"]] += 1
                if r["timeout"]:
                    agg["timeouts"] += 1
                    agg["errors"].append(("timeout", r.get("sched")))
                if r["error"]:
                    agg["errors"].append((r["error"], r.get("sched")))
                if r["viol"]:
                    agg["viols"].append(r)
                if r["states"]:
                    agg["nontrivial_runs"] += 1
                agg["states"].update(r["states"])
                for k in ("faults", "probes", "side", "oracles", "known_hits"):
                    agg[k].update(r[k])
                agg["steps"] += r["steps"]
                agg["sim_s"] += r["sim_s"]
                if "sample" in r and len(agg["samples"]) < 4:
                    agg["samples"].append(r["sample"])
    except Exception as e:
        broken = "%s: %s" % (type(e).__name__, e)
    finally:
        procs = list((getattr(ex, "_processes", None) or {}).values())
        ex.shutdown(wait=False, cancel_futures=True)
        for p in procs:
            try:
                p.terminate()
            except Exception:
                pass
    search_s = _time.time() - t0

    # a run that hit its wall-clock guard inside the loaded pool is executed once more here, alone and with a wider guard:
    # only a run that exceeds that too counts as a harness error (a slow machine must neither pass nor fail a check)
    retried = []
    for e, sched in agg["errors"]:
        if e == "timeout" and sched is not None and len(retried) < 8 and not broken:
            r = run_one(check, sched, known, timeout=4 * check.run_timeout_s)
            if not r["timeout"]:
                retried.append(sched.get("run"))
                agg["timeouts"] -= 1
                if r["error"]:
                    agg["errors"].append((r["error"], sched))
                if r["viol"]:
                    r["sched"] = sched
                    agg["viols"].append(r)
                if r["excluded"]:
                    agg["excluded"][r["excluded"]] += 1
    if retried:
        agg["errors"] = [(e, s_) for e, s_ in agg["errors"] if not (e == "timeout" and s_ is not None and s_.get("run") in retried)]
        out("note: %d runs hit the wall-clock guard in the pool and completed when executed again alone: %s" % (len(retried), retried))

    rc = 0
    if broken:
        out("HARNESS-ERROR property=%s worker pool failed: %s" % (check.pid, broken))
        rc = 2
    if agg["errors"]:
        e, s = agg["errors"][0]
        out("HARNESS-ERROR property=%s %d runs ended in an unclassified exception or timeout; first:\n%s\nschedule: %s" % (
            check.pid, len(agg["errors"]), e, json.dumps(s, default=str)[:1500]))
        rc = 2
    executed = agg["runs"] - sum(agg["excluded"].values())
    if rc == 0 and executed < min(check.min_runs, nruns):
        out("HARNESS-ERROR property=%s only %d runs executed within the budget" % (check.pid, executed))
        rc = 2

    # ---- violations: minimise, write replay, report
    reported = []
    if agg["viols"]:
        agg["viols"].sort(key=lambda r: r["run"])
        cnt = Counter(json.dumps(r["viol"]["signature"], sort_keys=True, default=str) for r in agg["viols"])
        for k, n in cnt.most_common(40):
            out("  %5d runs violate with signature %s" % (n, k))
        seen = set()
        for r in agg["viols"]:
            key = json.dumps(r["viol"]["signature"], sort_keys=True, default=str)
            if key in seen:
                continue
            seen.add(key)
            if len(reported) >= 3:
                continue
            sched, viol = r["sched"], r["viol"]
            n0 = len(sched.get(check.ops_key, []) or [])
            try:
                small = minimise(check, sched, same_violation(check, known, viol),
                                 wall=float(os.environ.get("VERIF_MIN_WALL", "60" if tier == "quick" else "180")))
            except Exception:
                small = sched
            rr = run_one(check, small, known)
            if not rr["viol"]:
                small, rr = sched, run_one(check, sched, known)
            v = rr["viol"] or viol
            path = write_replay(check, small, v, rr["digest"], minimised_from=n0)
            reported.append((path, v))
            out("VIOLATION property=%s replay=%s" % (check.pid, path))
            out("  oracle=%s signature=%s\n  %s" % (v["oracle"], json.dumps(v["signature"], sort_keys=True, default=str),
                                                   v["msg"][:600]))
        if reported:
            rc = 1
    for k in known:
        n = agg["known_hits"].get(str(k.lineno), 0)
        if n:
            out("KNOWN-FINDING: property=%s %s (matched in %d runs; signature=%s)" % (
                check.pid, k.text, n, json.dumps(k.signature, sort_keys=True)))

    wall = _time.time() - t0
    zero = [p for p in getattr(check, "expected_probes", []) if not agg["probes"].get(p)]
    if write_evidence and not os.environ.get("VERIF_NO_EVIDENCE"):
        ev = {
            "property_id": check.pid, "tier": tier, "seed": seed, "level": check.level,
            "coverage": {
                "evaluations": executed,
                "distinct_nontrivial": len(agg["states"]),
                "rule": check.rule,
                "samples": agg["samples"][:3] or [r.get("sched") for r in agg["viols"][:1]],
                "runs_requested": nruns, "runs_skipped_budget": agg["skipped"],
                "runs_excluded": dict(agg["excluded"]),
                "runs_leaving_initial_state": agg["nontrivial_runs"],
                "runs_per_hour": int(executed / max(search_s, 1e-9) * 3600),
                "workers": workers,
                "driver_steps": agg["steps"], "simulated_seconds": round(agg["sim_s"], 3),
                "fault_kinds_fired": dict(agg["faults"]),
                "reach_probes": dict(agg["probes"]), "reach_probes_stuck_at_zero": zero,
                "oracle_evaluations": dict(agg["oracles"]),
                "pure_side_oracle_evaluations": dict(agg["side"]),
                "components_real": check.real, "components_stub": check.stub,
                "configurations_excluded_by_generator": check.excluded_configs,
                "known_findings_matched": {k.text[:120]: agg["known_hits"].get(str(k.lineno), 0) for k in known},
                "technique": check.technique,
                "repo": boot.REPO, "repo_head": boot.repo_head(),
            },
            "assumptions": check.assumptions,
            "wall_s": round(wall, 2),
            "violations": len(reported),
        }
        ev["coverage"].update(check.extra_evidence(agg) or {})
        problems = validate_evidence(ev)
        if problems and rc == 0:
            out("HARNESS-ERROR property=%s evidence invalid: %s" % (check.pid, problems))
            rc = 2
        os.makedirs(EVID_DIR, exist_ok=True)
        with open(os.path.join(EVID_DIR, check.pid + ".json"), "w") as f:
            json.dump(ev, f, indent=1, default=str)
    out("%s %s: runs=%d excluded=%d states=%d steps=%d faults=%s known_hits=%d wall=%.1fs rc=%d" % (
        check.pid, tier, executed, sum(agg["excluded"].values()), len(agg["states"]), agg["steps"],
        dict(agg["faults"]), sum(agg["known_hits"].values()), wall, rc))
    if zero:
        out("note: reach probes stuck at zero: %s" % zero)
    return rc


def validate_evidence(ev):
    """structural check of the required keys of EVIDENCE.schema.json (jsonschema is not installed in /venv;
    `./check validate` runs the real validator when python3-vt is present)"""
    p = []
    for k in ("property_id", "tier", "seed", "level", "coverage", "wall_s"):
        if k not in ev:
            p.append("missing " + k)
    c = ev.get("coverage", {})
    if not (isinstance(c.get("evaluations"), int) and c["evaluations"] >= 1):
        p.append("evaluations")
    if not (isinstance(c.get("distinct_nontrivial"), int) and c["distinct_nontrivial"] >= 2):
        p.append("distinct_nontrivial<2")
    if not isinstance(c.get("rule"), str) or not c.get("rule"):
        p.append("rule")
    if not (isinstance(c.get("samples"), list) and len(c["samples"]) >= 1):
        p.append("samples")
    return p


# ------------------------------------------------------------------ replay

def replay(check, path):
    doc = json.load(open(path))
    known = [k for k in load_known() if k.prop == check.pid]
    check.setup()
    boot.assert_repo_used()
    seams.install_clock()
    seams.install_fs()
    for _ in range(max(1, int(doc["schedule"].get("repeat", 1)))):
        r = run_one(check, doc["schedule"], known, keep_log=True)
    v = r["viol"]
    if v and v["oracle"] == doc["oracle"]:
        same = r["digest"] == doc["log_digest"]
        print("VIOLATION property=%s replay=%s" % (check.pid, path))
        print("  reproduced oracle=%s digest_%s (%s)" % (v["oracle"], "identical" if same else "DIFFERS", r["digest"]))
        print("  " + v["msg"][:1500])
        return 1
    if r["error"] or r["timeout"]:
        print("HARNESS-ERROR replay ended in %s" % (r["error"] or "timeout"))
        return 2
    print("replay of %s did not reproduce (%s)" % (path, v and v["oracle"]))
    return 0
