"""dataset_sim (C18) - sequences of DataSet operations on a pool of live sets against a multiset reference model.

Real code: sparseSpACE.DEMachineLearning.DataSet (all transformation, split, removal and concatenation methods),
sklearn MinMaxScaler / shuffle underneath. The global PRNGs that shuffle() uses are owned by the run seed.
Invalid requests (out-of-range removal indices, concatenation across scalings) are injected deliberately.
"""
import copy
import numpy as np
from collections import Counter
from simcore.runner import Check
from simcore.seeds import stream

TOL = 1e-8


def key(v, label):
    return (tuple(round(float(x), 7) + 0.0 for x in v), int(label))


def match_pairs(A, B):
    """greedy tolerant matching of two lists of (vector, label); returns the list of indices into B matched to each
    element of A, or None if the (sample,label) multisets differ"""
    if len(A) != len(B):
        return None
    free = list(range(len(B)))
    out = []
    for (x, l) in A:
        hit = None
        for j in free:
            y, m = B[j]
            if m == l and len(x) == len(y) and np.all(np.abs(np.asarray(x) - np.asarray(y)) <= 1e-7 * (1.0 + np.abs(np.asarray(y)))):
                hit = j
                break
        if hit is None:
            return None
        free.remove(hit)
        out.append(hit)
    return out


class Rec:
    """one sample of the reference model: current value, label, reference value (what revert must restore)"""
    __slots__ = ("cur", "label", "ref")

    def __init__(self, cur, label, ref=None):
        self.cur = np.array(cur, dtype=float)
        self.label = int(label)
        self.ref = self.cur.copy() if ref is None else np.array(ref, dtype=float)

    def clone(self):
        return Rec(self.cur.copy(), self.label, self.ref.copy())


class Model:
    def __init__(self, recs, scaled=False, derived=False):
        self.recs = recs
        self.scaled = scaled
        self.derived = derived      # membership changed since the first scaling: revert is not judged

    def multiset(self):
        return Counter(key(r.cur, r.label) for r in self.recs)

    def pairs(self):
        return [(r.cur, r.label) for r in self.recs]


class C18(Check):
    pid = "C18"
    runs = {"quick": 120000, "thorough": 1500000}
    budget_s = {"quick": 70.0, "thorough": 700.0}
    block = 100
    run_timeout_s = 60.0
    fixed_prefix = 0
    real = ["sparseSpACE.DEMachineLearning.DataSet", "sklearn.preprocessing.MinMaxScaler", "sklearn.utils.shuffle (global numpy PRNG, seeded by the run)"]
    stub = ["none (the environment is the caller's operation sequence)"]
    rule = ("schedule = initial data (0..40 samples, 1-4 dimensions, labels -1..2, ties in the extreme values, duplicates) + <= 25 operations on a "
            "pool of <= 6 live DataSets: scale_range (overriding or not), scale_factor (scalar / per dimension, either sign), shift_value, "
            "revert_scaling, shuffle, move_boundaries_to_front, split_labels, split_pieces(p incl. outside [0,1)), split_without_labels, "
            "remove_samples (valid, empty, out of range, duplicated), concatenate / list_concatenate (same / different scaling, empty operand). "
            "Reference model: multiset of (sample, label) per set plus the reference samples revert must restore. A state is the multiset of "
            "the whole pool with the scaling flags; distinct_nontrivial counts distinct states after an operation")
    expected_probes = ["revert_checked", "override_rescale", "override_factor_or_shift", "concat_refused", "remove_refused", "degenerate_refused", "shuffle", "ties_in_extremes"]
    assumptions = ["exceptions on degenerate sets (empty, or an operation sklearn refuses) are accepted when the set is left unchanged",
                   "revert is judged on sets whose membership did not change since their first scaling (the statement quantifies over scalings, shifts and factors in between)",
                   "dimensions in which all samples coincide cannot map minimum and maximum onto different range ends: only containment in the range is required there"]

    def setup(self):
        import sparseSpACE.DEMachineLearning as D  # noqa
        self.D = D

    # ---------------------------------------------------------------- schedule
    def gen(self, rk, tier, idx):
        r = stream(rk, "cfg")
        n = r.choice([0, 1, 2, 3, 5, 5, 8, 12, 12, 20, 40])
        dim = r.choice([1, 2, 2, 3, 4])
        vals = [[round(r.uniform(-3, 3), 2) for _ in range(dim)] for _ in range(n)]
        if n >= 3 and r.random() < 0.4:        # ties in the extreme values, duplicates
            d = r.randrange(dim)
            mx = max(v[d] for v in vals)
            vals[r.randrange(n)][d] = mx
            vals[r.randrange(n)] = list(vals[r.randrange(n)])
        labels = [r.choice([-1, 0, 0, 1, 1, 2]) for _ in range(n)]
        if r.random() < 0.3:
            labels = [max(l, 0) for l in labels]
        o = stream(rk, "ops")
        w = {"scale_range": 3, "scale_range_ov": 1, "scale_factor": 2, "shift": 2, "scale_factor_ov": 1, "shift_ov": 1, "revert": 3, "shuffle": 2, "mbf": 1, "split_labels": 1,
             "split_pieces": 2, "split_wl": 1, "remove": 3, "remove_bad": 1, "concat": 2, "concat_list": 1, "copy": 1, "fresh_empty": 1}    # (copy and fresh_empty since rounds 12 / 14)
        for k in list(w):
            w[k] = w[k] * o.choice([0, 1, 1, 2])
        kinds = [k for k, v in w.items() for _ in range(v)] or ["scale_range"]
        ops = []
        for _ in range(o.randint(1, 25 if tier == "quick" else 40)):
            k = o.choice(kinds)
            tgt = o.randrange(10 ** 6)
            if k in ("scale_range", "scale_range_ov"):
                lo = o.choice([0.0, -1.0, 0.005, 2.0])
                ops.append([k, tgt, [lo, lo + o.choice([1.0, 0.99, 3.0, 0.5])]])
            elif k in ("scale_factor", "scale_factor_ov"):
                ops.append([k, tgt, o.choice([2.0, 0.5, -2.0, -0.25, 3.0, "vec"]), [o.choice([2.0, 0.5, -1.5, 4.0]) for _ in range(dim)]])
            elif k in ("shift", "shift_ov"):
                ops.append([k, tgt, o.choice([1.0, -0.3, 2.5, "vec"]), [o.choice([1.0, -0.5, 0.25]) for _ in range(dim)]])
            elif k == "split_pieces":
                ops.append([k, tgt, o.choice([0.0, 0.3, 0.5, 0.7, 0.999, 1.0, 1.5, -0.2])])
            elif k == "remove":
                ops.append([k, tgt, [o.randrange(10 ** 6) for _ in range(o.choice([0, 1, 1, 2, 3]))]])
            elif k == "remove_bad":
                ops.append([k, tgt, o.choice(["len", "len+3", "neg", "mixed", "dup"]), o.randrange(10 ** 6)])
            elif k in ("concat", "concat_list"):
                ops.append([k, tgt, o.randrange(10 ** 6), o.randrange(10 ** 6)])
            else:
                ops.append([k, tgt])
        return {"config": {"dim": dim, "values": vals, "labels": labels}, "ops": ops}

    def simplify(self, s):
        c = s["config"]
        if len(c["values"]) > 1:
            n = copy.deepcopy(s); n["config"]["values"] = c["values"][:-1]; n["config"]["labels"] = c["labels"][:-1]; yield n
            n = copy.deepcopy(s); n["config"]["values"] = c["values"][1:]; n["config"]["labels"] = c["labels"][1:]; yield n
        for i, op in enumerate(s["ops"]):
            if op[1] != 0:
                n = copy.deepcopy(s); n["ops"][i][1] = 0; yield n

    # ---------------------------------------------------------------- helpers
    def snapshot(self, ds):
        X, y = ds.get_data()
        if ds.is_empty():
            return np.zeros((0, 0)), np.zeros(0, dtype=int)
        return np.array(X, dtype=float).reshape(len(y), -1).copy(), np.array(y).copy()

    def actual_multiset(self, ds):
        X, y = self.snapshot(ds)
        return Counter(key(x, l) for x, l in zip(X, y))

    def actual_pairs(self, ds):
        X, y = self.snapshot(ds)
        return [(x, int(l)) for x, l in zip(X, y)]

    def sync(self, ctx, ds, m, what, sig):
        """actual (sample,label) multiset must equal the model's; then bring the model's order in line with the data"""
        A = self.actual_pairs(ds)
        perm = match_pairs(A, m.pairs())
        if perm is None:
            ctx.violate("multiset_preserved", dict(sig, op=what), "after %s the (sample,label) pairs differ from the reference model: actual %s..., model %s..." % (
                what, [(x.tolist(), l) for x, l in A[:4]], [(x.tolist(), l) for x, l in m.pairs()[:4]]))
        m.recs = [m.recs[j] for j in perm]
        ctx.ok("multiset_preserved")

    def unchanged(self, ctx, ds, before, what, sig):
        X, y = self.snapshot(ds)
        if X.shape != before[0].shape or not (np.array_equal(X, before[0]) and np.array_equal(y, before[1])):
            ctx.violate("refused_operation_leaves_data_unchanged", dict(sig, op=what), "%s was refused/raised but the data set was modified (%d -> %d samples)" % (what, len(before[1]), len(y)))

    def new_ds(self, recs):
        D = self.D
        if not recs:
            return D.DataSet(tuple([np.array([]), np.array([])]))
        return D.DataSet((np.array([r.cur for r in recs], dtype=float), np.array([r.label for r in recs], dtype=np.int64)))

    def check_attrs(self, ctx, parent, child, m_parent, what, sig):
        if child.is_scaled() != parent.is_scaled() or (parent.is_scaled() and not parent.same_scaling(child)):
            ctx.violate("scaling_attributes_carried", dict(sig, op=what), "%s: derived set does not carry the parent's scaling attributes" % what)

    # ---------------------------------------------------------------- execution
    def execute(self, sched, ctx):
        D = self.D
        c = sched["config"]
        dim = c["dim"]
        sig = {"dim_ge_2": dim >= 2}
        recs = [Rec(v, l) for v, l in zip(c["values"], c["labels"])]
        pool = [(self.new_ds(recs), Model(recs))]
        if len(recs) >= 3 and any(sum(1 for r in recs if r.cur[d] == max(q.cur[d] for q in recs)) > 1 for d in range(dim)):
            ctx.probe("ties_in_extremes")
        for op in sched["ops"]:
            ctx.step()
            k = op[0]
            i = op[1] % len(pool)
            ds, m = pool[i]
            n = len(m.recs)
            before = self.snapshot(ds)
            ctx.ev(k, i, n)
            try:
                if k in ("scale_range", "scale_range_ov", "scale_factor", "shift", "scale_factor_ov", "shift_ov"):
                    self.op_scale(ctx, ds, m, op, dim, sig)
                elif k == "revert":
                    if m.scaled:
                        ds.revert_scaling()
                        if not m.derived:
                            X, y = self.snapshot(ds)
                            for x, r in zip(X, m.recs):
                                if not np.all(np.abs(x - r.ref) <= 1e-7 * (1.0 + np.abs(r.ref)) * 8):
                                    ctx.violate("revert_restores_reference", sig, "revert_scaling gives %s, the sample before the first scaling was %s" % (x.tolist(), r.ref.tolist()))
                            ctx.probe("revert_checked"); ctx.ok("revert_restores_reference")
                            for r in m.recs:
                                r.cur = r.ref.copy()
                        else:
                            ctx.probe("revert_on_derived_set_not_judged")
                            X, y = self.snapshot(ds)
                            for x, r in zip(X, m.recs):
                                r.cur = x.copy(); r.ref = x.copy()
                        m.scaled = False
                        m.derived = False
                        if ds.is_scaled():
                            ctx.violate("revert_clears_scaling", sig, "is_scaled() still true after revert_scaling")
                elif k == "shuffle":
                    ds.shuffle(); ctx.probe("shuffle")
                    self.sync(ctx, ds, m, k, sig)
                elif k == "mbf":
                    ds.move_boundaries_to_front()
                    self.sync(ctx, ds, m, k, sig)
                elif k == "fresh_empty":
                    # an accumulator: a freshly created empty set (no dimension, no scaling) joins the pool and will be the receiver
                    # or the argument of later concatenations
                    how = op[1] % 3
                    if how == 0:
                        e = D.DataSet(tuple([np.array([]), np.array([])]))
                    elif how == 1:
                        e = D.DataSet.list_concatenate([])
                    else:
                        e = ds.remove_samples([])
                        self.sync(ctx, ds, m, "remove_samples([])", sig)
                    if not e.is_empty():
                        ctx.violate("multiset_preserved", dict(sig, op=k), "a freshly created empty data set holds %d samples" % e.get_length())
                    ctx.probe("fresh_empty_set")
                    if len(pool) < 6:
                        pool.append((e, Model([])))
                elif k == "copy":
                    cp = ds.copy()
                    ctx.probe("copy")
                    if match_pairs(self.actual_pairs(cp), m.pairs()) is None:
                        ctx.violate("multiset_preserved", dict(sig, op=k), "copy() does not hold the samples of its source")
                    self.check_attrs(ctx, ds, cp, m, k, sig)
                    if len(pool) < 6:
                        # the copy starts out sharing the source's arrays; from here on it is a data set of its own (reference model:
                        # an independent clone) - an operation on one that changes the other shows as other_sets_untouched
                        pool.append((cp, Model([r.clone() for r in m.recs], m.scaled, m.derived)))
                elif k == "split_labels":
                    parts = ds.split_labels()
                    tot = []
                    for p in parts:
                        tot += self.actual_pairs(p)
                        labs = set(int(l) for l in self.snapshot(p)[1])
                        if len(labs) > 1:
                            ctx.violate("split_labels_single_label", sig, "a piece of split_labels holds labels %s" % labs)
                        self.check_attrs(ctx, ds, p, m, k, sig)
                    if match_pairs(tot, m.pairs()) is None:
                        ctx.violate("multiset_preserved", dict(sig, op=k), "split_labels pieces do not add up to the original set")
                    self.adopt(pool, parts, m)
                elif k == "split_pieces":
                    p0, p1 = ds.split_pieces(op[2])
                    if match_pairs(self.actual_pairs(p0) + self.actual_pairs(p1), m.pairs()) is None:
                        ctx.violate("multiset_preserved", dict(sig, op=k), "split_pieces(%r) pieces do not add up to the original set" % op[2])
                    for p in (p0, p1):
                        self.check_attrs(ctx, ds, p, m, k, sig)
                    self.adopt(pool, [p0, p1], m)
                elif k == "split_wl":
                    p0, p1 = ds.split_without_labels()
                    if match_pairs(self.actual_pairs(p0) + self.actual_pairs(p1), m.pairs()) is None:
                        ctx.violate("multiset_preserved", dict(sig, op=k), "split_without_labels pieces do not add up to the original set")
                    if any(l != -1 for l in self.snapshot(p0)[1]) or any(l < 0 for l in self.snapshot(p1)[1]):
                        ctx.violate("split_without_labels_separates", sig, "labelled and unlabelled samples are mixed")
                    for p in (p0, p1):
                        self.check_attrs(ctx, ds, p, m, k, sig)
                    self.adopt(pool, [p0, p1], m)
                elif k == "remove":
                    idx = sorted(set(j % n for j in op[2])) if n else []
                    rem = ds.remove_samples(idx)
                    if match_pairs(self.actual_pairs(rem) + self.actual_pairs(ds), m.pairs()) is None:
                        ctx.violate("multiset_preserved", dict(sig, op=k), "remove_samples(%s): removed + remaining differ from the original set" % idx)
                    gone = [m.recs[j] for j in idx]
                    keep = [r for j, r in enumerate(m.recs) if j not in set(idx)]
                    m2 = Model([r.clone() for r in gone], m.scaled, True)
                    m.recs = keep
                    if idx:
                        m.derived = m.derived or m.scaled
                    self.sync(ctx, ds, m, k, sig)
                    if len(pool) < 6 and gone:
                        self.sync(ctx, rem, m2, k, sig)
                        pool.append((rem, m2))
                elif k == "remove_bad":
                    kind = op[2]
                    bad = {"len": [n], "len+3": [n + 3], "neg": [-1], "mixed": [0, n + 1] if n else [1], "dup": [op[3] % n, op[3] % n] if n else [0]}[kind]
                    ctx.fault("invalid_request")
                    raised = False
                    try:
                        rem = ds.remove_samples(bad)
                    except (ValueError, IndexError):
                        raised = True
                    if kind == "dup" and n:
                        # duplicated valid indices are not out of range: either outcome must keep the pairs consistent
                        if raised:
                            self.unchanged(ctx, ds, before, "remove_samples(duplicated index)", sig)
                        else:
                            if match_pairs(self.actual_pairs(rem) + self.actual_pairs(ds), m.pairs()) is None:
                                ctx.violate("multiset_preserved", dict(sig, op="remove_duplicated_index"), "remove_samples(%s): removed + remaining differ from the original set" % bad)
                            j = bad[0]
                            m.recs = [r for t, r in enumerate(m.recs) if t != j]
                            m.derived = m.derived or m.scaled
                            self.sync(ctx, ds, m, k, sig)
                    else:
                        if not raised:
                            ctx.violate("out_of_range_removal_rejected", dict(sig, kind=kind), "remove_samples(%s) on a set of %d samples was not rejected" % (bad, n))
                        ctx.probe("remove_refused")
                        self.unchanged(ctx, ds, before, "remove_samples(%s)" % kind, dict(sig, kind=kind))
                elif k in ("concat", "concat_list"):
                    j = op[2] % len(pool)
                    ds2, m2 = pool[j]
                    b2 = self.snapshot(ds2)
                    both_nonempty = len(m.recs) > 0 and len(m2.recs) > 0
                    same = ds.same_scaling(ds2)
                    try:
                        res = ds.concatenate(ds2) if k == "concat" else D.DataSet.list_concatenate([ds, ds2])
                    except ValueError:
                        res = None
                    if res is None:
                        ctx.probe("concat_refused"); ctx.fault("invalid_request")
                        self.unchanged(ctx, ds, before, "concatenate", sig)
                        self.unchanged(ctx, ds2, b2, "concatenate", sig)
                        if same and both_nonempty:
                            ctx.violate("concatenate_same_scaling_accepted", sig, "concatenation of two sets with the same scaling was refused")
                    else:
                        if both_nonempty and not same:
                            ctx.violate("concatenate_different_scaling_refused", sig, "sets with different scalings were concatenated")
                            # (known finding) the result mixes two scalings under one set of attributes: it is not adopted
                            # into the pool, the operands must still be unchanged
                            self.unchanged(ctx, ds, before, "concatenate", sig)
                            self.unchanged(ctx, ds2, b2, "concatenate", sig)
                            ctx.state(("cross-scaling concat accepted",))
                            continue
                        if not both_nonempty and (len(m.recs) > 0 or len(m2.recs) > 0):
                            # documented: "if either data set is empty, the other one is returned" - the result must carry the
                            # non-empty operand's scaling attributes
                            ne = ds if len(m.recs) > 0 else ds2
                            if res.is_scaled() != ne.is_scaled() or (ne.is_scaled() and not ne.same_scaling(res)):
                                # the documented shortcut ("if either data set is empty, the other one is returned") is taken when the stored
                                # dimensions differ, i.e. for a freshly created empty set; a set emptied by remove_samples keeps its dimension
                                # and goes through the general path (known finding) - the two cases carry different signatures
                                ctx.violate("concatenate_with_empty_operand", dict(sig, stored_dimensions_differ=bool(ds.get_dim() != ds2.get_dim())),
                                            "concatenation with an empty operand returns the samples of the non-empty operand under the empty operand's scaling attributes")
                                self.unchanged(ctx, ds, before, "concatenate", sig)
                                self.unchanged(ctx, ds2, b2, "concatenate", sig)
                                continue
                        if match_pairs(self.actual_pairs(res), m.pairs() + m2.pairs()) is None:
                            ctx.violate("multiset_preserved", dict(sig, op=k), "concatenation differs from the union of its operands")
                        if both_nonempty:
                            self.check_attrs(ctx, ds, res, m, k, sig)
                        if len(pool) < 6 and res is not ds and res is not ds2:
                            mm = Model([r.clone() for r in m.recs] + [r.clone() for r in m2.recs], m.scaled if m.recs else m2.scaled, True)
                            self.sync(ctx, res, mm, k, sig)
                            pool.append((res, mm))
            except (ValueError, IndexError, TypeError, AttributeError) as e:
                if getattr(e, "harness", False):
                    raise
                if n <= 1 or self.degenerate(m, dim):
                    # degenerate input (empty / single sample / coinciding samples): a clean refusal is accepted
                    ctx.probe("degenerate_refused")
                    self.unchanged(ctx, ds, before, "%s on a degenerate set" % k, dict(sig, op=k))
                else:
                    raise
            # whole-pool invariants after every operation
            for (d2, mm) in pool:
                if d2.get_length() != len(mm.recs):
                    ctx.violate("length_consistent", sig, "get_length() %d, reference model %d" % (d2.get_length(), len(mm.recs)))
                # every live set - not only the one just operated on - must still hold its samples with their labels, in order:
                # this is where aliasing between a set and the sets derived from it shows up
                X2, y2 = self.snapshot(d2)
                if len(mm.recs):
                    M = np.array([r.cur for r in mm.recs])
                    L = np.array([r.label for r in mm.recs])
                    if X2.shape != M.shape or not np.all(np.abs(X2 - M) <= 1e-7 * (1.0 + np.abs(M))) or not np.array_equal(np.asarray(y2).astype(int), L):
                        ctx.violate("other_sets_untouched", dict(sig, op=k), "after %s on one set, another live set no longer holds its (sample,label) pairs in order: labels %s vs model %s" % (
                            k, np.asarray(y2).astype(int).tolist()[:12], L.tolist()[:12]))
            ctx.state(tuple(sorted((tuple(sorted(mm.multiset().items())), mm.scaled) for _, mm in pool)))

    def degenerate(self, m, dim):
        if len(m.recs) == 0:
            return True
        A = np.array([r.cur for r in m.recs])
        return bool(np.any(A.max(axis=0) - A.min(axis=0) <= 1e-9 * (1.0 + np.abs(A.max(axis=0)) + np.abs(A.min(axis=0)))))

    def adopt(self, pool, parts, m):
        for p in parts:
            if len(pool) >= 6:
                break
            A = self.actual_pairs(p)
            free = list(m.recs)
            recs = []
            for x, l in A:
                hit = next((r for r in free if r.label == l and np.all(np.abs(r.cur - x) <= 1e-7 * (1.0 + np.abs(x)))), None)
                if hit is not None:
                    free.remove(hit)
                    recs.append(hit.clone())
                else:
                    recs.append(Rec(x, l))
            pool.append((p, Model(recs, m.scaled, True)))

    def op_scale(self, ctx, ds, m, op, dim, sig):
        k = op[0]
        n = len(m.recs)
        A = np.array([r.cur for r in m.recs]) if n else np.zeros((0, dim))
        first = not m.scaled
        if k in ("scale_range", "scale_range_ov"):
            lo, hi = op[2]
            override = k == "scale_range_ov"
            ds.scale_range((lo, hi), override_scaling=override)
            if override or first:
                if override and not first:
                    ctx.probe("override_rescale")
                for r in m.recs:
                    r.ref = r.cur.copy()
                m.derived = False
            mn, mx = A.min(axis=0), A.max(axis=0)
            X, y = self.snapshot(ds)
            for d in range(dim):
                col = X[:, d]
                if mx[d] - mn[d] > 1e-9 * (1.0 + abs(mx[d]) + abs(mn[d])):    # a spread of rounding noise only counts as degenerate
                    if abs(col.min() - lo) > TOL * 10 or abs(col.max() - hi) > TOL * 10:
                        ctx.violate("scale_maps_extremes_to_range", sig, "scale_range((%r,%r)): dimension %d spans [%r,%r]" % (lo, hi, d, col.min(), col.max()))
                    exp = lo + (A[:, d] - mn[d]) * (hi - lo) / (mx[d] - mn[d])
                    if not np.all(np.abs(col - exp) <= 1e-8 * (1 + abs(lo) + abs(hi))):
                        ctx.violate("scale_is_affine", sig, "scale_range: dimension %d is not the affine image of the samples" % d)
                else:
                    if not np.all((col >= lo - TOL) & (col <= hi + TOL)):
                        ctx.violate("scale_maps_extremes_to_range", sig, "scale_range((%r,%r)): degenerate dimension %d leaves the range: %s" % (lo, hi, d, col[:3]))
            ctx.ok("scale_maps_extremes_to_range")
            for r, x in zip(m.recs, X):
                r.cur = x.copy()
            m.scaled = True
        else:
            v = np.array(op[3], dtype=float) if op[2] == "vec" else float(op[2])
            override = k.endswith("_ov")
            if first or override:
                # an overriding factor / shift turns the current samples into the new "original" ones
                if override and not first:
                    ctx.probe("override_factor_or_shift")
                for r in m.recs:
                    r.ref = r.cur.copy()
                m.derived = False
            if k.startswith("scale_factor"):
                ds.scale_factor(v, override_scaling=override)
                exp = A * v
            else:
                ds.shift_value(v, override_scaling=override)
                exp = A + v
            X, y = self.snapshot(ds)
            if n and not np.all(np.abs(X - exp) <= 1e-9 * (1 + np.abs(exp))):
                ctx.violate("factor_or_shift_applied", dict(sig, op=k), "%s(%s) gives %s..., expected %s..." % (k, op[2], X[:2].tolist(), exp[:2].tolist()))
            if n and list(y) != [r.label for r in m.recs]:
                ctx.violate("labels_stay_attached", dict(sig, op=k), "%s changed the labels" % k)
            for r, x in zip(m.recs, X):
                r.cur = x.copy()
            m.scaled = True
        if not ds.is_scaled():
            ctx.violate("scaling_flag", sig, "%s did not mark the set as scaled" % k)


CHECKS = {"C18": C18}
