"""classification_sim (C19) - learn once, then a history of __call__ / test_data / evaluate requests with data inside,
partly outside and entirely outside the learned range, with and without unlabelled samples.

Real code: Classification, DataSet, DensityEstimation, StandardCombi / the dimension-wise strategy, interpolation.
Owned by the seed: the global PRNGs (shuffle at construction, random validation sets), the clock (_time_used).
Oracle R-argmax: positions re-scaled by the harness with the range and factor reported at learning time, densities
from the learned per-class combination objects, expected class = any maximiser.
"""
import copy
import numpy as np
from simcore.runner import Check
from simcore.ctx import Excluded
from simcore.seeds import stream


def make_data(seed_vals, n, dim, k, spread=1.0, shift=0.0, unl=0.0, centres=None, lattice=None, learn=False):
    rng = np.random.RandomState(seed_vals % (2 ** 31))
    cent = np.array(centres) if centres is not None else rng.uniform(0, 1, (k, dim))
    y = rng.randint(0, k, n)
    X = cent[y] + rng.normal(0, 0.08 if lattice is None else 0.2, (n, dim))
    X = np.round(X * spread + shift, 6)
    if lattice is not None:
        # whole-number features 0..L: the learned range is [0, L] in every dimension, so the value L/2 scales to exactly 0.5 - a
        # grid line of every component grid - and the range ends to the outermost positions
        X = np.round(X * lattice)
        if not learn:
            # some mid-range values arrive one rounding step below L/2 (a measured or converted whole number): under the learning
            # scaling they land within an ulp of the grid line 0.5
            mid = (X == lattice / 2.0) & (rng.random_sample(X.shape) < 0.4)
            X[mid] = np.nextafter(lattice / 2.0, 0.0)
        if learn:
            X = np.clip(X, 0, lattice)
            X[0, :] = 0.0
            X[1, :] = float(lattice)
            y = y.copy()
            y[0], y[1] = 0, min(1, k - 1)
    if unl > 0:
        m = rng.random_sample(n) < unl
        y = y.copy()
        y[m] = -1
    return X, y.astype(np.int64), cent.tolist()


class C19(Check):
    pid = "C19"
    runs = {"quick": 12000, "thorough": 150000}
    budget_s = {"quick": 90.0, "thorough": 900.0}
    block = 40
    run_timeout_s = 240.0
    fixed_prefix = 0
    real = ["DEMachineLearning.Classification", "DEMachineLearning.DataSet", "GridOperation.DensityEstimation", "StandardCombi",
            "SpatiallyAdaptiveSingleDimensions2 (dimension-wise learning)", "interpolation of the learned densities"]
    stub = ["clocks (SimClock; _time_used is computed from time.time())", "global PRNGs seeded by the run (shuffle, validation sampling)",
            "size threshold moved through the guarded hook SPARSESPACE_VERIF_DE_THRESHOLD in a third of the runs (learning and evaluation then use the large-grid implementations)"]
    rule = ("schedule = labelled learning set (2-4 classes, 30-80 samples, 2-3 dims, optional unlabelled samples), split percentage, even / "
            "uneven split, shuffle, standard or dimension-wise learning with small levels (15 % with one_vs_others), then <= 5 calls of __call__ / test_data / evaluate "
            "/ continue_dimension_wise_refinement with fresh data sets inside, partly outside or entirely outside the learned range, with or without unlabelled samples, or with a "
            "deep copy of the object's own (already scaled) learning / testing piece. The arg-max is taken over densities the harness "
            "interpolates itself (scipy, multilinear) from the published scheme, coefficients and 1-D point lists; the object's own density "
            "answers must equal them. A state "
            "is (learning configuration class, sequence of call kinds with the numbers of classified samples); distinct_nontrivial counts "
            "distinct states after a call")
    expected_probes = ["user_specified_range", "call_in_range", "call_partly_out", "all_out_refused", "unlabelled_set_aside", "test_data", "reclassified_earlier_data", "own_scaled_piece", "continued_learning", "same_array_evaluated_again", "large_grid_implementation_on_small_grids", "one_vs_others", "whole_number_features"]
    assumptions = ["ties between maximal densities accept any maximiser (tolerance 1e-9 relative on the densities)",
                   "the in-range test is the library's documented one on the scaled coordinates: 0.0049 <= s <= 0.9951"]

    def setup(self):
        import sparseSpACE.DEMachineLearning as D  # noqa
        self.D = D

    def gen(self, rk, tier, idx):
        r = stream(rk, "cfg")
        dim = r.choice([2, 2, 3])
        k = r.choice([2, 2, 3, 4])
        cfg = {"dim": dim, "k": k, "n": r.choice([30, 40, 60, 80]), "data_seed": r.randrange(10 ** 6), "unl": r.choice([0.0, 0.0, 0.2]),
               "split": r.choice([1.0, 1.0, 0.7, 0.5]), "even": r.random() < 0.5, "shuffle": r.random() < 0.5,
               "learn": r.choice(["standard", "standard", "dimwise"]), "masslumping": r.random() < 0.5, "lambd": r.choice([0.0, 0.01, 0.1]),
               "lmax": r.choice([2, 2, 3]), "one_vs_others": stream(rk, "ovo").random() < 0.15, "max_evaluations": r.choice([20, 40, 80]),
               "rebalancing": r.random() < 0.3, "boundary": r.random() < 0.3,
               # user-specified data range (30 %): per dimension the data's own extreme or a wider bound
               "user_range": [[r.choice([0.0, 0.0, 0.1, 0.5]), r.choice([0.0, 0.0, 0.1, 0.5])] for _ in range(dim)] if r.random() < 0.3 else None}
        # the size threshold between the small-grid and the large-grid implementations (200 points) is far above the grids of a
        # short run: in a third of the runs it is moved through the guarded hook so that learning and every later
        # evaluation go through the large-grid code on small grids
        cfg["lattice"] = stream(rk, "lattice").choice([None, None, None, None, None, 4, 8, 10])
        cfg["threshold"] = stream(rk, "threshold").choice([None, None, None, None, 1, 6, 20])
        o = stream(rk, "ops")
        ops = []
        for j in range(o.randint(1, 5)):
            kind = o.choice(["call", "call", "test", "test", "evaluate", "recall", "own", "continue"])
            where = o.choice(["in", "in", "partly", "out", "unl"])
            # (one call in sixteen hands over more than a thousand samples at once: whatever is done per batch of samples inside is crossed)
            ops.append([kind, where, o.randrange(10 ** 6), o.choice([5, 10, 20] * 5 + [1300])])
        return {"config": cfg, "ops": ops}

    def simplify(self, s):
        c = s["config"]
        if c.get("user_range"):
            n = copy.deepcopy(s); n["config"]["user_range"] = None; yield n
        if c.get("threshold") is not None:
            n = copy.deepcopy(s); n["config"]["threshold"] = None; yield n
        if c.get("lattice") is not None:
            n = copy.deepcopy(s); n["config"]["lattice"] = None; yield n
        for key, v in (("unl", 0.0), ("split", 1.0), ("shuffle", False), ("even", False), ("learn", "standard"), ("one_vs_others", False),
                       ("lmax", 2), ("k", 2), ("n", 30), ("masslumping", True), ("lambd", 0.0)):
            if c[key] != v:
                n = copy.deepcopy(s); n["config"][key] = v; yield n
        for i, op in enumerate(s["ops"]):
            if op[3] > 5:
                n = copy.deepcopy(s); n["ops"][i][3] = 5; yield n

    def execute(self, sched, ctx):
        import os
        thr = sched["config"].get("threshold")
        env_old = {k: os.environ.get(k) for k in ("SPARSESPACE_VERIF", "SPARSESPACE_VERIF_DE_THRESHOLD")}
        try:
            if thr is not None:
                os.environ["SPARSESPACE_VERIF"] = "1"
                os.environ["SPARSESPACE_VERIF_DE_THRESHOLD"] = str(thr)
                ctx.fault("threshold_moved"); ctx.probe("large_grid_implementation_on_small_grids")
            else:
                os.environ.pop("SPARSESPACE_VERIF", None)
                os.environ.pop("SPARSESPACE_VERIF_DE_THRESHOLD", None)
            self._execute(sched, ctx)
        finally:
            for k, v in env_old.items():
                if v is None:
                    os.environ.pop(k, None)
                else:
                    os.environ[k] = v

    @staticmethod
    def independent_density(cf, pts, learn):
        """density of one class at pts from what the learned object publishes - scheme, coefficients, per-grid nodal coefficients and
        the grids' 1-D point lists - by scipy's multilinear interpolation; shares no code with the library's three interpolation paths"""
        from scipy.interpolate import RegularGridInterpolator
        pts = np.asarray(pts, dtype=float)
        tot = np.zeros(len(pts))
        for cg in cf.scheme:
            lv = tuple(int(v) for v in cg.levelvector)
            sv = np.asarray(cf.operation.surpluses[lv], dtype=float).ravel()
            if learn == "standard":
                P = [np.linspace(float(cf.a[d]), float(cf.b[d]), 2 ** lv[d] + 1) for d in range(len(lv))]
            else:
                P = [np.asarray(p, dtype=float) for p in cf.get_point_coord_for_each_dim(cg.levelvector)[0]]
            full = [len(p) for p in P]
            inner = [n - 2 for n in full]
            if sv.size == int(np.prod(full)):
                V = sv.reshape(full)
            elif sv.size == int(np.prod(inner)):
                V = np.zeros(full)
                V[tuple(slice(1, -1) for _ in full)] = sv.reshape(inner)
            else:
                e = RuntimeError("component grid %s publishes %d coefficients for point lists of lengths %s" % (lv, sv.size, full))
                e.harness = True
                raise e
            tot += float(cg.coefficient) * RegularGridInterpolator(P, V, method="linear", bounds_error=False, fill_value=None)(pts)
        return tot

    def _execute(self, sched, ctx):
        D = self.D
        c = sched["config"]
        sig = {"learn": c["learn"], "one_vs_others": c["one_vs_others"], "threshold_moved": c.get("threshold") is not None}
        ctx.exc_sig = dict(sig)
        X, y, cent = make_data(c["data_seed"], c["n"], c["dim"], c["k"], unl=c["unl"], lattice=c.get("lattice"), learn=True)
        if c.get("lattice"):
            ctx.probe("whole_number_features")
        if len(set(int(v) for v in y if v >= 0)) < 2:
            raise Excluded("fewer than two classes drawn")
        lab = X[y >= 0]
        dmin, dmax = lab.min(axis=0), lab.max(axis=0)
        if c.get("user_range"):
            lo = dmin - np.array([u[0] for u in c["user_range"]])
            hi = dmax + np.array([u[1] for u in c["user_range"]])
            data_range = (lo.copy(), hi.copy())
            ctx.probe("user_specified_range")
        else:
            lo, hi, data_range = dmin, dmax, None
        cl = D.Classification(D.DataSet((X.copy(), y.copy())), data_range=data_range, split_percentage=c["split"], split_evenly=c["even"],
                              shuffle_data=c["shuffle"], print_level=100, log_level=100)
        if c["one_vs_others"]:
            # split_one_vs_others indexes its class counts by label value: it is defined for learning pieces labelled 0..k-1
            ll = sorted(set(int(v) for v in np.array(cl.get_learning_data().get_data()[1])))
            if ll != list(range(len(ll))):
                raise Excluded("one_vs_others with a learning piece whose labels are not 0..k-1")
            ctx.probe("one_vs_others")
        if c["learn"] == "standard":
            cl.perform_classification(masslumping=c["masslumping"], lambd=c["lambd"], minimum_level=1, maximum_level=c["lmax"],
                                      one_vs_others=c["one_vs_others"], print_metrics=False)
        else:
            cl.perform_classification_dimension_wise(masslumping=c["masslumping"], lambd=c["lambd"], minimum_level=1, maximum_level=2,
                                                     max_evaluations=c["max_evaluations"], rebalancing=c["rebalancing"], boundary=c["boundary"],
                                                     one_vs_others=c["one_vs_others"], print_metrics=False)
        ctx.step()
        try:
            cl.perform_classification(print_metrics=False)
            ctx.violate("second_learning_refused", sig, "a second perform_classification on the same object was accepted")
        except ValueError:
            ctx.fault("invalid_request")
        # the scaling fixed at learning time, derived by the harness from the raw labelled samples / the range it passed,
        # not from what the object reports
        rmin, rmax = np.array(lo, dtype=float), np.array(hi, dtype=float)
        fac = 0.99 / (rmax - rmin)
        rep_min, rep_max = (np.array(v, dtype=float) for v in cl.get_dataset_range())
        rep_fac = np.array(cl.get_scale_factor(), dtype=float) * np.ones(c["dim"])
        if not (np.allclose(rep_min, rmin, rtol=0, atol=1e-9) and np.allclose(rep_max, rmax, rtol=0, atol=1e-9) and np.allclose(rep_fac, fac, rtol=1e-9, atol=0)):
            ctx.violate("reported_learning_scaling", sig, "get_dataset_range()/get_scale_factor() report [%s, %s] x %s, the learning data was scaled with [%s, %s] x %s" % (
                rep_min.tolist(), rep_max.tolist(), rep_fac.tolist(), rmin.tolist(), rmax.tolist(), fac.tolist()))
        # learning samples must sit at their positions under that scaling
        Xl = np.asarray(cl.get_learning_data().get_data()[0], dtype=float).reshape(-1, c["dim"])
        Sl_all = (lab - rmin) * fac + 0.005
        for row in Xl[:10]:
            if np.min(np.max(np.abs(Sl_all - row), axis=1)) > 1e-9:
                ctx.violate("learning_data_scaled_with_learning_range", sig, "a learning sample sits at %s, which is no labelled raw sample under the learning-time scaling" % row.tolist())
        clfs, _ = cl.get_density_estimation_results()
        nclass = len(clfs)

        def expected(Xraw):
            S = (np.asarray(Xraw, dtype=float) - rmin) * fac + 0.005
            inr = np.all((S >= 0.0049) & (S <= 0.9951), axis=1)
            return S, inr

        def densities(S):
            if len(S) == 0:
                return np.zeros((nclass, 0))
            pts = [tuple(float(v) for v in row) for row in S]
            return np.array([np.asarray(cf(pts))[:, 0] for cf in cl.get_density_estimation_results()[0]])

        def check_classes(got, S, what):
            dens = densities(S)
            if len(S):
                # the densities the object's own interpolation reports must be the densities of the published scheme and
                # coefficients (an interpolation path that answers consistently wrong would otherwise vouch for itself)
                ind = np.array([self.independent_density(cf, S, c["learn"]) for cf in cl.get_density_estimation_results()[0]])
                scale = 1.0 + float(np.max(np.abs(ind)))
                if ind.shape != dens.shape or not np.all(np.abs(ind - dens) <= 1e-8 * scale):
                    j = int(np.argmax(np.max(np.abs(ind - dens), axis=0)))
                    ctx.violate("density_is_interpolant_of_published_coefficients", dict(sig, call=what), "%s: at scaled position %s the learned objects report densities %s, multilinear interpolation of their published coefficients gives %s" % (
                        what, np.asarray(S)[j].tolist(), dens[:, j].tolist(), ind[:, j].tolist()))
                ctx.ok("density_is_interpolant_of_published_coefficients", len(S))
                dens = ind
            for i, g in enumerate(got):
                col = dens[:, i]
                mx = col.max()
                ok = 0 <= int(g) < nclass and col[int(g)] >= mx - 1e-9 * (1.0 + abs(mx))
                if not ok:
                    ctx.violate("class_is_argmax_density", dict(sig, call=what), "%s: sample %s (scaled %s) got class %r, densities %s" % (
                        what, i, S[i].tolist(), g, col.tolist()))
            ctx.ok("class_is_argmax_density", len(got))

        history = []        # (raw X in range, classes) of earlier __call__s
        trace = []

        def recorded_classes_are_argmax(what):
            """the classes recorded for the held testing samples are the arg-max classes of the current densities at the samples'
            (already scaled) positions, one per held sample"""
            td = cl.get_testing_data()
            rec = np.array(cl.get_calculated_classes_testset())
            if td.is_empty():
                return
            Xs = np.asarray(td.get_data()[0], dtype=float).reshape(-1, c["dim"])
            if len(rec) != len(Xs):
                ctx.violate("recorded_classes_cover_test_set", dict(sig, call=what), "%s: %d classes recorded for %d held testing samples" % (what, len(rec), len(Xs)))
            check_classes(rec.astype(int), Xs, what)
        for (kind, where, dseed, m) in sched["ops"]:
            ctx.step()
            spread, shift, unl = {"in": (1.0, 0.0, 0.0), "partly": (1.6, -0.2, 0.0), "out": (1.0, 50.0, 0.0), "unl": (1.0, 0.0, 0.4)}[where]
            Xt, yt, _ = make_data(dseed, m, c["dim"], c["k"], spread=spread, shift=shift, unl=unl, centres=cent, lattice=c.get("lattice"))
            S, inr = expected(Xt)
            ctx.ev(kind, where, int(inr.sum()), m)
            if kind == "continue":
                # the documented continuation of a dimension-wise learning run: the class densities are refined further; the held
                # testing samples are classified under the refined densities, and the summary describes those classes
                if c["learn"] != "dimwise":
                    continue
                lim = c["max_evaluations"] + [15, 40, 80][dseed % 3]
                cl.continue_dimension_wise_refinement(tolerance=0.0 if dseed % 5 else 1e9, max_evaluations=lim, min_evaluations=1)
                ctx.probe("continued_learning")
                clfs, _ = cl.get_density_estimation_results()
                history = []        # classes of earlier calls were arg-max classes of the densities before the continuation
                recorded_classes_are_argmax("held testing samples after continue_dimension_wise_refinement")
                trace.append(("continue", len(cl.get_calculated_classes_testset())))
            elif kind == "evaluate":
                recorded_classes_are_argmax("held testing samples at evaluate()")
                before = np.array(cl.get_calculated_classes_testset()).copy()
                try:
                    ev = cl.evaluate()
                except ValueError as e:
                    if len(before) == 0:
                        continue        # documented: nothing to evaluate
                    ctx.violate("evaluate_consistent", sig, "evaluate() raised %s although %d classes are recorded for the test set" % (str(e)[:100], len(before)))
                    continue
                td = cl.get_testing_data()
                labels = np.array(td.get_data()[1])
                wrong = int(np.sum(labels != before.astype(int))) if len(labels) == len(before) else None
                if wrong is None or ev["Wrong mappings"] != wrong or ev["Total mappings"] != len(before) or abs(ev["Percentage correct"] - (1.0 - wrong / len(before))) > 1e-12:
                    ctx.violate("evaluate_consistent", sig, "evaluate() = %s, recomputed from the test set's labels and recorded classes: wrong %s of %d" % (
                        {k2: ev[k2] for k2 in ("Wrong mappings", "Total mappings", "Percentage correct")}, wrong, len(before)))
                ctx.ok("evaluate_consistent")
                trace.append(("evaluate", len(before)))
            elif kind == "recall":
                if not history:
                    continue
                Xh, ch, handed = history[dseed % len(history)]
                if (dseed // 7) % 2 and handed is not None:
                    # the caller evaluates the very array it handed in before (wrapped in a new data set, as re-using the data set
                    # object itself is refused): the same samples, hence the same classes
                    ctx.probe("same_array_evaluated_again")
                    try:
                        res = cl(D.DataSet((handed, np.full(len(handed), -1, dtype=np.int64))), print_removed=False)
                    except ValueError as e:
                        ctx.violate("earlier_classes_unchanged", sig, "evaluating the array of an earlier call again was refused (%s): %d of its samples were classified before" % (str(e)[:80], len(ch)))
                else:
                    res = cl(D.DataSet((Xh.copy(), np.full(len(Xh), -1, dtype=np.int64))), print_removed=False)
                got = np.array(res.get_data()[1]).astype(int)
                if len(got) != len(ch) or not np.array_equal(got, ch):
                    ctx.violate("earlier_classes_unchanged", sig, "re-evaluating earlier data gives %s, before %s" % (got.tolist(), ch.tolist()))
                ctx.probe("reclassified_earlier_data"); ctx.ok("earlier_classes_unchanged")
                trace.append(("recall", len(got)))
            elif kind == "own":
                # data that already carries the learning scaling: (a deep copy of) the learning / testing piece the object hands
                # out itself. Its samples sit at their positions in the learning scaling and must be classified there.
                src = cl.get_testing_data() if dseed % 2 else cl.get_learning_data()
                if src.is_empty():
                    src = cl.get_learning_data()
                piece = copy.deepcopy(src)
                Xs = np.asarray(src.get_data()[0], dtype=float).reshape(-1, c["dim"]).copy()
                ys = np.array(src.get_data()[1]).astype(int).copy()
                via = "test_data" if (dseed // 2) % 2 else "__call__"
                before = np.array(cl.get_calculated_classes_testset()).copy()
                try:
                    res = cl(piece, print_removed=False) if via == "__call__" else cl.test_data(piece, print_output=False, print_removed=False)
                except ValueError as e:
                    # a piece whose scaling attributes no longer equal the internal ones (the testing piece after test_data has
                    # concatenated differently scaled data onto it) is refused by design; the refusal must leave the bookkeeping alone
                    if "scaling doesn't match" not in str(e):
                        raise
                    if not np.array_equal(np.array(cl.get_calculated_classes_testset()), before):
                        ctx.violate("refused_test_leaves_bookkeeping", sig, "a refused call on an already scaled piece changed the recorded classes")
                    ctx.fault("invalid_request"); ctx.probe("own_piece_refused")
                    trace.append(("own_refused", 0))
                    continue
                ctx.probe("own_scaled_piece")
                if via == "__call__":
                    Xr, cr = res.get_data()
                    Xr = np.asarray(Xr, dtype=float).reshape(-1, c["dim"])
                    if len(cr) != len(Xs) or not np.allclose(Xr, Xs, rtol=0, atol=1e-9):
                        ctx.violate("already_scaled_data_kept_in_place", dict(sig, call=via), "__call__ on a copy of the object's own %d scaled samples returned %d samples / moved positions (max shift %s)" % (
                            len(Xs), len(cr), float(np.max(np.abs(Xr - Xs))) if len(cr) == len(Xs) else None))
                    check_classes(np.array(cr).astype(int), Xs, "__call__ on own scaled piece")
                    trace.append(("own_call", len(cr)))
                else:
                    use = ys >= 0
                    after = np.array(cl.get_calculated_classes_testset())
                    if len(after) < len(before) or not np.array_equal(after[:len(before)], before):
                        ctx.violate("earlier_classes_unchanged", sig, "test_data changed the classes recorded for earlier data")
                    got = after[len(before):].astype(int)
                    if len(got) != int(use.sum()):
                        ctx.violate("already_scaled_data_kept_in_place", dict(sig, call=via), "test_data on a copy of the object's own scaled piece recorded %d classes for %d labelled samples" % (len(got), int(use.sum())))
                    check_classes(got, Xs[use], "test_data on own scaled piece")
                    wrong, tot = int(np.sum(got != ys[use])), int(use.sum())
                    if res["Wrong mappings"] != wrong or res["Total mappings"] != tot or (tot and abs(res["Percentage correct"] - (1.0 - wrong / tot)) > 1e-12):
                        ctx.violate("summary_consistent", sig, "test_data (own scaled piece) summary %s, recomputed: wrong %d of %d" % (
                            {k2: res[k2] for k2 in ("Wrong mappings", "Total mappings", "Percentage correct")}, wrong, tot))
                    trace.append(("own_test", len(got)))
            elif kind == "call":
                handed = Xt.copy()          # the caller's own array: the data set is built on it
                ds = D.DataSet((handed, yt.copy()))
                try:
                    res = cl(ds, print_removed=False)
                except ValueError:
                    if inr.any():
                        ctx.violate("in_range_samples_classified", dict(sig, call="call"), "__call__ refused data with %d samples inside the learned range" % int(inr.sum()))
                    ctx.probe("all_out_refused"); ctx.fault("invalid_request")
                    trace.append(("call_refused", 0))
                    continue
                if not inr.any():
                    ctx.violate("out_of_range_refused", dict(sig, call="call"), "__call__ accepted data entirely outside the learned range")
                Xr, cr = res.get_data()
                Xr = np.asarray(Xr, dtype=float).reshape(-1, c["dim"])
                if len(cr) != int(inr.sum()) or not np.allclose(Xr, S[inr], rtol=0, atol=1e-9):
                    ctx.violate("out_of_range_removed", dict(sig, call="call"), "__call__ returned %d samples, %d lie inside the learned range (scaled positions must be those of the in-range samples in order)" % (len(cr), int(inr.sum())))
                check_classes(np.array(cr).astype(int), S[inr], "__call__")
                ctx.probe("call_in_range" if inr.all() else "call_partly_out")
                history.append((Xt[inr].copy(), np.array(cr).astype(int).copy(), handed))
                trace.append(("call", len(cr)))
            elif kind == "test":
                ds = D.DataSet((Xt.copy(), yt.copy()))
                before = np.array(cl.get_calculated_classes_testset()).copy()
                use = inr & (yt >= 0)
                try:
                    res = cl.test_data(ds, print_output=False, print_removed=False)
                except Exception as e:
                    if getattr(e, "harness", False) or (use.any() and not isinstance(e, ValueError)):
                        raise
                    # nothing testable (no labelled sample inside the range) is a degenerate request: any refusal is accepted
                    # as long as the bookkeeping is untouched
                    if use.any():
                        ctx.violate("in_range_samples_classified", dict(sig, call="test_data"), "test_data refused data with %d labelled samples inside the learned range" % int(use.sum()))
                    if not inr.any():
                        ctx.probe("all_out_refused"); ctx.fault("invalid_request")
                    after = np.array(cl.get_calculated_classes_testset())
                    if not np.array_equal(after, before):
                        ctx.violate("refused_test_leaves_bookkeeping", sig, "a refused test_data call changed the recorded classes")
                    trace.append(("test_refused", 0))
                    continue
                after = np.array(cl.get_calculated_classes_testset())
                ctx.probe("test_data")
                if (yt[inr] < 0).any():
                    ctx.probe("unlabelled_set_aside")
                if len(after) < len(before) or not np.array_equal(after[:len(before)], before):
                    ctx.violate("earlier_classes_unchanged", sig, "test_data changed the classes recorded for earlier data")
                got = after[len(before):].astype(int)
                if len(got) != int(use.sum()):
                    ctx.violate("out_of_range_removed", dict(sig, call="test_data"), "test_data recorded %d classes, %d labelled samples lie inside the learned range" % (len(got), int(use.sum())))
                check_classes(got, S[use], "test_data")
                wrong = int(np.sum(got != yt[use]))
                tot = int(use.sum())
                if res["Wrong mappings"] != wrong or res["Total mappings"] != tot or (tot and abs(res["Percentage correct"] - (1.0 - wrong / tot)) > 1e-12):
                    ctx.violate("summary_consistent", sig, "test_data summary %s, recomputed: wrong %d of %d" % (
                        {k2: res[k2] for k2 in ("Wrong mappings", "Total mappings", "Percentage correct")}, wrong, tot))
                ctx.ok("summary_consistent")
                trace.append(("test", len(got)))
            ctx.state((c["learn"], c["k"], c["dim"], tuple(trace)))


CHECKS = {"C19": C19}
