"""dimwise_sim - the dimension-wise spatially adaptive strategy under simulated environments.

System under test (real code): SpatiallyAdaptiveSingleDimensions2, MetaRefinementContainer, RefinementContainer,
RefinementObjectSingleDimension, CombiScheme, Integration, GlobalTrapezoidalGrid, Function cache, dill persistence.
Stubs: the integrand's values (SimFunction.eval) and, unless cfg['estimator']=='real', the error estimator's answers
(SimErrorCalculator); clocks; file system.

The seed schedules the environment's answers (benefit per interval and evaluation: zero / tie / uniform, keyed
draws), the options of the strategy, and the driver operations (run with limits, stop, continue, save, crash +
restore, queries). Monitors evaluate the properties' clauses after every evaluation and every refinement step.
"""
import copy, math
from simcore.ctx import Violation, Excluded
from simcore.seeds import stream, H, Hs
from simcore import seams

EPS = 2.220446049250313e-16


class StopRun(Exception):
    harness = True


# ------------------------------------------------------------------ observers (class level, nothing stored on instances)

class _Obs:
    cur = None


def install_observers():
    from sparseSpACE.spatiallyAdaptiveBase import SpatiallyAdaptivBase as B
    from sparseSpACE.Utils import LogUtility
    if getattr(B, "_verif_wrapped", False):
        return
    orig_ev, orig_ref, orig_dbg = B.evaluate_operation, B.refine, LogUtility.log_debug

    def evaluate_operation(self):
        o = _Obs.cur
        if o is not None:
            o.before_evaluate(self)
        r = orig_ev(self)
        if o is not None:
            o.after_evaluate(self, r)
        return r

    def refine(self):
        o = _Obs.cur
        if o is not None:
            o.before_refine(self)
        orig_ref(self)
        if o is not None:
            o.after_refine(self)

    def log_debug(self, message=""):
        o = _Obs.cur
        if o is not None and isinstance(message, str):
            if message.startswith("Rebalancing!"):
                o.on_log("rebalancing")
            elif message.startswith("New lmax"):
                o.on_log("new_lmax")
            elif message.startswith("recalculating errors"):
                o.on_log("recalculating")
        return orig_dbg(self, message)

    B.evaluate_operation = evaluate_operation
    B.refine = refine
    LogUtility.log_debug = log_debug
    B._verif_wrapped = True
    # divergence guard (deterministic, not a wall clock): the automatic split/extend decision of the extend-split strategy looks for
    # a parent scheme that contributes points to the area by lowering `coarsening` in a `while True` loop; when no scheme ever does
    # (observed with boundary points off) the loop never ends and every round costs four times the previous one. Six levels beyond
    # lmax the history is handed to the run's owner: the evaluation never comes back, whatever the machine
    from sparseSpACE.spatiallyAdaptiveExtendSplit import SpatiallyAdaptiveExtendScheme as E
    orig_flex = E.evaluate_operation_area_complete_flexibel

    def evaluate_operation_area_complete_flexibel(self, area, coarsening, *a, **k):
        if coarsening < -6 and _Obs.cur is not None:
            _Obs.cur.on_divergence(self, coarsening)
        return orig_flex(self, area, coarsening, *a, **k)
    E.evaluate_operation_area_complete_flexibel = evaluate_operation_area_complete_flexibel


# ------------------------------------------------------------------ configuration generator

A_CHOICES = [0.0, -1.0, 2.0, -0.5]
W_CHOICES = [1.0, 3.0, 0.5, 2.0]


def gen_cfg(r, tier, dims=(1, 2, 2, 2, 3, 3, 4), versions=(6, 6, 6, 2, 3, 7, 8), boundary_p=0.7, rebal_p=0.5,
            estimator="keyed", max_evals=None, focus_p=0.1, cluster_p=0.05):
    dim = r.choice(dims)
    lmin = r.choice([1, 1, 1, 2, 2, 3] if dim <= 3 else [1, 1, 2])
    lmax = lmin + r.choice([1, 1, 1, 2, 2, 3] if dim <= 2 else [1, 1, 2])
    lmax = max(lmax, 2)
    if dim >= 4:
        lmax = min(lmax, 3)
    a = [r.choice(A_CHOICES) for _ in range(dim)]
    b = [a[d] + r.choice(W_CHOICES) for d in range(dim)]
    mode = r.choice(["mix"] * 8 + ["equal", "zero"])
    cfg = {"dim": dim, "a": a, "b": b, "lmin": lmin, "lmax": lmax, "version": r.choice(versions),
           "rebalancing": r.random() < rebal_p, "safety": r.choice([0.0, 0.1, 0.1, 0.5]),
           "boundary": r.random() < boundary_p, "modified_basis": False,
           "margin": r.choice([0.0, 0.25, 0.5, 0.9, 0.9, 1.0]),
           "estimator": estimator, "p_zero": r.choice([0.0, 0.2, 0.4, 0.7, 0.95]), "p_tie": r.choice([0.0, 0.1, 0.3]),
           "mode": mode, "use_epoch": r.random() < 0.7, "nnoise": r.choice([1, 1, 2]),
           "jump": r.random() < 0.3, "norm": r.choice([1, 2, "inf"]),
           "evals": r.randint(1, max_evals or (6 if tier == "quick" else 9)),
           "max_intervals": 40 if tier == "quick" else 70, "max_points": 2500 if tier == "quick" else 6000,
           "clock_jumps": r.random() < 0.3, "recalc": r.choice([None, None, None, 1, 2, 3, 5])}
    if max_evals is None and r.random() < 0.12:
        # long narrow histories: one or two intervals refined per step over many steps, rebalancing on - the states in
        # which one dimension's tree is left partly balanced while other dimensions are refined
        cfg.update(dim=r.choice([2, 2, 3]), lmin=r.choice([1, 1, 2]), rebalancing=True, margin=r.choice([0.9, 1.0]), p_zero=0.0,
                   p_tie=0.0, mode="mix", evals=r.randint(7, 12 if tier == "quick" else 18), max_intervals=90, long_narrow=True)
        cfg["lmax"] = cfg["lmin"] + 1 if cfg["lmin"] > 1 else 2
        cfg["a"], cfg["b"] = cfg["a"][:cfg["dim"]] + [0.0] * max(0, cfg["dim"] - len(cfg["a"])), None
        cfg["b"] = [x + r.choice(W_CHOICES) for x in cfg["a"]]
        if r.random() < 0.5:
            # lopsided trees: benefits weighted towards one end of every dimension; with start levels >= 3 the rotations
            # reach points whose level is below lmin
            cfg["bias"] = [r.choice(["right", "left"]), r.choice([1, 2, 4])]
            if r.random() < 0.5:
                cfg.update(dim=r.choice([1, 2, 2]), lmin=3, lmax=r.choice([3, 4, 4]), safety=r.choice([0.0, 0.1]))
                cfg["a"], cfg["b"] = cfg["a"][:cfg["dim"]], cfg["b"][:cfg["dim"]]
    import os as _os
    _force = _os.environ.get("VERIF_DEBUG_FAMILY")       # debugging knob (never set by the registered commands): force one family
    if max_evals is None and not cfg.get("long_narrow") and (r.random() < focus_p or _force in ("focus", "deep")):
        # sharply localised driver: per dimension the interval containing one target point is refined step after step while the
        # rest of the dimension stays at its initial depth (lmax raised repeatedly next to untouched regions), from start
        # levels with lmax - lmin >= 2
        dim = r.choice([2, 2, 3])
        lmin = r.choice([1, 1, 2])
        cfg.update(dim=dim, lmin=lmin, lmax=lmin + (r.choice([2, 2, 3]) if dim == 2 else 2), margin=r.choice([0.9, 1.0]), mode="mix",
                   evals=r.randint(3, 6 if tier == "quick" else 8), max_intervals=90, focus=True, p_tie=0.0,
                   bias=["focus", [r.choice([0.1, 0.3, 0.3, 0.55, 0.8, 0.95]) for _ in range(dim)], r.choice([0.0, 0.01, 0.3])] +
                        (["uneven"] if r.random() < 0.5 else []))
        if len(cfg["bias"]) > 3:
            cfg["evals"] = r.randint(4, 8 if tier == "quick" else 11)
        if r.random() < 0.3 or _force == "deep":
            # deep start levels with lmax = lmin + 1 and rebalancing: a rotation near a localised refinement lifts a sparsely refined
            # sub-tree to level lmin (points whose level equals the minimum level while the component levels range above it)
            cfg.update(dim=2, lmin=3, lmax=4, rebalancing=True, safety=r.choice([0.0, 0.1]), evals=r.randint(3, 6 if tier == "quick" else 8),
                       version=r.choice([6, 6, 7, 8, 2, 3]))
            cfg["bias"][2] = r.choice([0.01, 0.3, 0.3, 0.6])
            cfg["bias"][1] = cfg["bias"][1][:2]
            dim = 2
        cfg["a"] = (cfg["a"] + [0.0] * dim)[:dim]
        cfg["b"] = [x + r.choice(W_CHOICES) for x in cfg["a"]]
    if max_evals is None and not cfg.get("long_narrow") and not cfg.get("focus") and (r.random() < cluster_p or _force == "cluster"):
        # wandering clusters from deep start levels with lmax = lmin + 1 and rebalancing: per dimension all intervals overlapping a
        # window are refined; the window moves and breathes from step to step. Rotations next to a cluster lift sparsely refined
        # sub-trees to the minimum level while component levels range above it (measured: the states seeded change c03h needs are
        # reached in about 1 % of these histories, in none of the single-point focus histories)
        lm = r.choice([3, 3, 3, 2])
        cfg.update(dim=2, lmin=lm, lmax=lm + 1, rebalancing=True, safety=r.choice([0.0, 0.1]), version=r.choice([6, 6, 6, 7, 7, 8, 8, 2, 3]),
                   margin=r.choice([0.5, 0.9, 1.0]), mode="mix", p_zero=0.0, p_tie=0.0, use_epoch=True, cluster=True,
                   evals=r.randint(4, 6 if tier == "quick" else 8), max_intervals=150, max_points=8000,
                   bias=["window", [[r.choice([0.1, 0.3, 0.5, 0.8125, 0.9, round(r.random(), 3)]), r.choice([0.03, 0.03, 0.0625, 0.125, 0.2])] for _ in range(2)],
                         r.choice([0.0, 0.0, 0.01]), "wander"])
        cfg["a"] = (cfg["a"] + [0.0, 0.0])[:2]
        cfg["b"] = [x + r.choice(W_CHOICES) for x in cfg["a"]]
    # benefit scale and answers placed just below / just above the margin fraction of the largest answer: the selection rule
    # is a comparison of floats, not "close to"
    cfg["scale"] = r.choice([1.0] * 6 + [1e-9, 1e-12, 1e-15, 1e7])
    cfg["p_near"] = r.choice([0.0, 0.0, 0.0, 0.15, 0.3]) if not cfg.get("bias") else 0.0
    if cfg["p_near"] and cfg["p_tie"] == 0.0 and not cfg.get("long_narrow"):
        cfg["p_tie"] = 0.1
    return cfg


def simplify_cfg(s):
    """configuration simplifications shared by the dimension-wise checks"""
    c = s["config"]
    for k, v in (("rebalancing", False), ("jump", False), ("clock_jumps", False), ("recalc", None), ("mode", "mix"),
                 ("scale", 1.0), ("p_near", 0.0), ("use_epoch", False), ("nnoise", 1), ("safety", 0.1), ("norm", "inf")):
        if k in c and c[k] != v:
            n = copy.deepcopy(s); n["config"][k] = v; yield n
    if c.get("evals", 1) > 1:
        n = copy.deepcopy(s); n["config"]["evals"] -= 1; yield n
    if c["lmax"] - c["lmin"] > 1 and c["lmax"] > 2:
        n = copy.deepcopy(s); n["config"]["lmax"] -= 1; yield n
    if c["lmin"] > 1 and c["lmax"] > 2:
        n = copy.deepcopy(s); n["config"]["lmin"] -= 1; n["config"]["lmax"] -= 1; yield n
    if any(x != 0.0 for x in c["a"]) or any(y - x != 1.0 for x, y in zip(c["a"], c["b"])):
        n = copy.deepcopy(s); n["config"]["a"] = [0.0] * c["dim"]; n["config"]["b"] = [1.0] * c["dim"]; yield n
    for pz in (0.0, 0.4):
        if c.get("p_zero") not in (None, pz):
            n = copy.deepcopy(s); n["config"]["p_zero"] = pz; yield n
    if c.get("p_tie"):
        n = copy.deepcopy(s); n["config"]["p_tie"] = 0.0; yield n


# ------------------------------------------------------------------ the simulation of one instance

GLOBAL_GRIDS = ["GlobalTrapezoidalGrid", "GlobalLagrangeGrid2", "GlobalBSplineGrid3", "GlobalHighOrderGrid"]


def make_global_grid(cfg):
    """global grid families that run in the dimension-wise strategy in the pinned environment (Simpson, Romberg, balanced
    Romberg and the modified Lagrange basis do not)"""
    import numpy as np
    import sparseSpACE.Grid as G
    a, b = np.array(cfg["a"], dtype=float), np.array(cfg["b"], dtype=float)
    name = cfg.get("grid", "GlobalTrapezoidalGrid")
    if name == "GlobalTrapezoidalGrid":
        return G.GlobalTrapezoidalGrid(a=a, b=b, modified_basis=cfg.get("modified_basis", False), boundary=cfg["boundary"])
    if name == "GlobalLagrangeGrid2":
        return G.GlobalLagrangeGrid(a=a, b=b, boundary=cfg["boundary"], p=2)
    if name == "GlobalBSplineGrid3":
        return G.GlobalBSplineGrid(a=a, b=b, boundary=cfg["boundary"], p=3)
    if name == "GlobalHighOrderGrid":
        return G.GlobalHighOrderGrid(a=a, b=b, boundary=cfg["boundary"])
    raise ValueError(name)


class DimwiseSim:
    strategy = "dimension_wise"

    def __init__(self, cfg, rk, ctx, monitors=()):
        self.cfg, self.rk, self.ctx = cfg, rk, ctx
        self.monitors = list(monitors)
        self.n_eval = 0
        self.n_refine = 0
        self.stop_after = None          # evaluation index after which the observer raises StopRun
        self.eval_cap = 80
        self.rot_dims = set()           # dimensions in which a rebalancing rotation has fired so far
        self._cur_dim_guess = None
        self.sa = self.op = self.f = self.err = None
        self.last_ret = None

    # -- construction ---------------------------------------------------
    def build(self, probes=(), reference=None, f=None):
        import numpy as np
        from sparseSpACE.spatiallyAdaptiveSingleDimension2 import SpatiallyAdaptiveSingleDimensions2
        from sparseSpACE.GridOperation import Integration
        from sparseSpACE.Grid import GlobalTrapezoidalGrid
        from sparseSpACE.ErrorCalculator import ErrorCalculatorSingleDimVolumeGuided
        from simcore.env import SimFunction, SimErrorCalculator
        c = self.cfg
        install_observers()
        a, b = np.array(c["a"], dtype=float), np.array(c["b"], dtype=float)
        self.a, self.b = a, b
        # configuration class carried by the signature of any exception the library raises in this run
        self.ctx.exc_sig = {"strategy": "dimension_wise", "version": c["version"], "lmin_equals_lmax": c["lmin"] == c["lmax"],
                            "estimator": c.get("estimator", "keyed")}
        if c.get("clock_jumps"):
            r = stream(self.rk, "faults")
            seams.CLOCK.jumps = {r.randrange(1, 40): r.choice([0.5, 60.0, 86400.0]) for _ in range(3)}
        if f is None:
            f = SimFunction(self.rk, nnoise=c.get("nnoise", 1), probes=probes, a=c["a"], b=c["b"],
                            jump=(c["a"][0] + 0.3 * (c["b"][0] - c["a"][0])) if c.get("jump") else None,
                            offset=c.get("offset", 0.0))
        self.f = f
        grid = make_global_grid(c)
        self.op = Integration(f=f, grid=grid, dim=c["dim"], reference_solution=None if reference is None else np.array(reference, dtype=float),
                              print_level=100, log_level=100)
        norm = np.inf if c.get("norm", "inf") == "inf" else c["norm"]
        self.sa = SpatiallyAdaptiveSingleDimensions2(a, b, operation=self.op, version=c["version"], rebalancing=c["rebalancing"],
                                                     rebalancing_safety_factor=c.get("safety", 0.1), margin=c["margin"], norm=norm,
                                                     print_level=100, log_level=100)
        # the debug channel carries the library's own "Rebalancing!" / "New lmax" messages: keep it on, output is discarded
        if c.get("estimator", "keyed") == "real":
            self.err = ErrorCalculatorSingleDimVolumeGuided()
            self.ctx.real.add("ErrorCalculatorSingleDimVolumeGuided")
        else:
            self.err = SimErrorCalculator(self.rk, p_zero=c["p_zero"], p_tie=c["p_tie"], mode=c.get("mode", "mix"),
                                          use_epoch=c.get("use_epoch", False), bias=tuple(c["bias"]) if c.get("bias") else None,
                                          domain=(list(c["a"]), list(c["b"])), scale=c.get("scale", 1.0),
                                          near=(c["margin"], c["p_near"]) if c.get("p_near") else None)
        return self

    # -- driver -----------------------------------------------------------
    def perform(self, tol=-1.0, max_evaluations=None, min_evaluations=1, reevaluate_at_end=False, stop_after=None, **kw):
        c = self.cfg
        self.stop_after = stop_after
        _Obs.cur = self
        try:
            rf = c.get("recalc")
            if rf:
                self.ctx.fault("skip_fast_path")
            # refinements_for_recalculate is a plain attribute (default 100): the buggify knob
            if rf:
                self.sa.refinements_for_recalculate = rf
            self.last_ret = self.sa.performSpatiallyAdaptiv(c["lmin"], c["lmax"], self.error_operator(), tol=tol, max_evaluations=max_evaluations,
                                                            min_evaluations=min_evaluations, print_output=False,
                                                            recalculate_frequently=bool(rf), reevaluate_at_end=reevaluate_at_end, **kw)
            return self.last_ret
        except AssertionError as e:
            self._resolution(e)
            raise
        finally:
            _Obs.cur = None

    @staticmethod
    def _resolution(e):
        # RefinementObjectSingleDimension.refine refuses (assertion with message) to split an interval whose midpoint is
        # not strictly inside it: the history zoomed in to floating-point resolution - a degenerate input, not a violation
        if "does not hold" in str(e):
            raise Excluded("interval at floating-point resolution")

    def error_operator(self):
        return self.err

    def cont(self, tol=-1.0, max_evaluations=None, min_evaluations=1, stop_after=None, **kw):
        self.stop_after = stop_after
        _Obs.cur = self
        try:
            self.last_ret = self.sa.continue_adaptive_refinement(tol=tol, max_evaluations=max_evaluations, min_evaluations=min_evaluations, **kw)
            return self.last_ret
        except AssertionError as e:
            self._resolution(e)
            raise
        finally:
            _Obs.cur = None

    # -- observer callbacks -------------------------------------------------
    def before_evaluate(self, sa):
        if hasattr(self.err, "epoch"):
            self.err.epoch = self.n_eval

    def after_evaluate(self, sa, ret):
        self.n_eval += 1
        self.ctx.step()
        self.ctx.ev("eval", self.n_eval, [int(x) for x in sa.lmax], self.structure_key())
        for m in self.monitors:
            m.on_eval(self)
        if self.n_eval >= self.eval_cap:
            self.ctx.probe("evaluation_cap_reached")
            raise StopRun()
        if self.stop_after is not None and self.n_eval >= self.stop_after:
            self.ctx.fault("stop@k")
            raise StopRun()
        if self.too_big():
            self.ctx.probe("size_budget_reached")
            raise StopRun()

    def before_refine(self, sa):
        for m in self.monitors:
            m.pre_refine(self)

    def after_refine(self, sa):
        self.n_refine += 1
        self.ctx.step()
        self.ctx.state(self.structure_key())
        for m in self.monitors:
            m.post_refine(self)

    def on_divergence(self, sa, coarsening):
        from simcore.ctx import Excluded
        self.ctx.probe("parent_estimate_loop_diverging")
        if getattr(self, "divergence_is_violation", False):
            self.ctx.violate("refinement_step_terminates", {"strategy": "extend_split", "automatic": bool(self.cfg.get("automatic")), "boundary": bool(self.cfg.get("boundary")),
                                                            "function": "get_parent_split_operation"},
                             "the parent estimate of the automatic split/extend decision lowers its coarsening value without end (now %d): no parent scheme "
                             "contributes a point to the area, the loop has no other exit - the refinement step, hence the run, never returns" % coarsening)
        raise Excluded("parent estimate of the automatic decision does not terminate (known finding of C13)")

    def on_log(self, what):
        self.ctx.probe(what)
        if what == "rebalancing":
            self.rotated = True

    # -- views ------------------------------------------------------------------
    def containers(self):
        return [self.sa.refinement.get_refinement_container_for_dim(d).get_objects() for d in range(self.cfg["dim"])]

    def structure_key(self):
        return [[(float(o.start).hex(), float(o.end).hex(), int(o.levels[0]), int(o.levels[1])) for o in objs] for objs in self.containers()]

    def scheme_map(self):
        return {tuple(int(x) for x in cg.levelvector): cg.coefficient for cg in self.sa.scheme}

    def too_big(self):
        c = self.cfg
        if max(len(o) for o in self.containers()) > c.get("max_intervals", 40):
            return True
        return len(self.f.seen) > c.get("max_points", 2500)


class Monitor:
    def on_eval(self, sim):
        pass

    def on_return(self, sim, ret):
        """a driver call returned (stop by its limits)"""
        pass

    def pre_refine(self, sim):
        pass

    def post_refine(self, sim):
        pass


# ------------------------------------------------------------------ C06: structure monitor

class StructureMonitor(Monitor):
    """interval tiling, level tree, coarsening levels, split-set prediction (R-intervals)"""

    def __init__(self):
        self.pred = None
        self.checked_initial = False

    def sig(self, sim, **kw):
        c = sim.cfg
        s = {"strategy": "dimension_wise", "rebalancing": c["rebalancing"]}
        s.update(kw)
        return s

    def on_return(self, sim, ret):
        self.check_structure(sim, "at_return")
        lm = [int(x) for x in ret[2]]
        deepest = [max(max(int(l) for l in o.levels) for o in objs) for objs in sim.containers()]
        if any(a < b for a, b in zip(lm, deepest)):
            sim.ctx.violate("lmax_covers_levels", self.sig(sim, when="at_return"), "the driver returned lmax %s, deepest levels present %s" % (lm, deepest))

    def on_eval(self, sim):
        if not self.checked_initial:
            self.checked_initial = True
            self.check_structure(sim, "initial")
        else:
            self.check_structure(sim, "at_evaluation")
        for objs in sim.containers():
            for o in objs:
                if o.benefit is None or o.benefit < 0 or (isinstance(o.error, float) and o.error < 0):
                    sim.ctx.violate("benefit_non_negative", self.sig(sim), "interval [%r,%r] dim %d has benefit %r" % (o.start, o.end, o.this_dim, o.benefit))

    def pre_refine(self, sim):
        ctx = sim.ctx
        conts = sim.containers()
        ben = [[float(o.benefit) for o in objs] for objs in conts]
        mx = max(max(bb) for bb in ben)
        mx = max(mx, 0.0)
        margin = sim.cfg["margin"]     # what the caller configured, not what the object says it uses
        thr = mx * margin
        pred = []
        nsplit = 0
        ties = 0
        for d, objs in enumerate(conts):
            row = []
            for o, bf in zip(objs, ben[d]):
                split = bf >= thr
                nsplit += split
                if bf == thr and mx > 0:
                    ties += 1
                if split and o.coarsening_level == 0:
                    ctx.probe("split_at_coarsening_zero")
                row.append((float(o.start), float(o.end), split))
            pred.append(row)
        total = sum(len(o) for o in conts)
        if nsplit == 1:
            ctx.probe("single_split_step")
        if nsplit == total:
            ctx.probe("split_everything_step")
        if ties > 1:
            ctx.probe("ties_at_margin")
        if mx == 0.0:
            ctx.probe("all_benefits_zero")
        self.pred = pred
        ctx.ev("pre_refine", nsplit, total, repr(mx), margin)

    def post_refine(self, sim):
        ctx = sim.ctx
        self.check_structure(sim, "after_refine")
        # R-intervals: (old - predicted) + halves(predicted)
        weighted = sim.cfg.get("weighted", False)
        for d, objs in enumerate(sim.containers()):
            obs = [(float(o.start), float(o.end)) for o in objs]
            exp = []
            j = 0
            ok = True
            why = ""
            for (s, e, split) in self.pred[d]:
                if not split:
                    if j < len(obs) and obs[j] == (s, e):
                        j += 1
                    else:
                        ok = False; why = "interval [%r,%r] below the margin was changed or lost" % (s, e); break
                else:
                    if j + 1 < len(obs) and obs[j][0] == s and obs[j + 1][1] == e and obs[j][1] == obs[j + 1][0] and s < obs[j][1] < e:
                        m = obs[j][1]
                        if not weighted and abs(m - 0.5 * (s + e)) > 4 * EPS * max(abs(s), abs(e), e - s):
                            ok = False; why = "interval [%r,%r] split at %r, not at its midpoint" % (s, e, m); break
                        j += 2
                    else:
                        ok = False; why = "interval [%r,%r] reached the margin but was not split into two halves" % (s, e); break
            if ok and j != len(obs):
                ok = False; why = "unexpected extra intervals after the step"
            if not ok:
                ctx.violate("split_set", self.sig(sim), "dim %d: %s; predicted=%s observed=%s margin=%r" % (d, why, self.pred[d], obs, sim.sa.margin))
        ctx.ok("split_set")

    def check_structure(self, sim, when):
        ctx, sa = sim.ctx, sim.sa
        sig = self.sig(sim, when=when)
        for d, objs in enumerate(sim.containers()):
            a, b = sim.cfg["a"][d], sim.cfg["b"][d]
            if len(objs) == 0:
                ctx.violate("tiling", sig, "dim %d has no intervals" % d)
            if objs[0].start != a or objs[-1].end != b:
                ctx.violate("tiling", sig, "dim %d: intervals span [%r,%r], domain is [%r,%r]" % (d, objs[0].start, objs[-1].end, a, b))
            for i, o in enumerate(objs):
                if not o.start < o.end:
                    ctx.violate("tiling", sig, "dim %d: interval %d has start %r >= end %r" % (d, i, o.start, o.end))
                if o.this_dim != d:
                    ctx.violate("tiling", sig, "dim %d holds an interval of dimension %r" % (d, o.this_dim))
                if i + 1 < len(objs):
                    n = objs[i + 1]
                    if o.end != n.start:
                        ctx.violate("tiling", sig, "dim %d: gap/overlap/disorder between [%r,%r] and [%r,%r]" % (d, o.start, o.end, n.start, n.end))
                    if o.levels[1] != n.levels[0]:
                        ctx.violate("shared_point_level", sig, "dim %d: point %r has level %r on the left and %r on the right" % (d, o.end, o.levels[1], n.levels[0]))
            lv = [int(objs[0].levels[0])] + [int(o.levels[1]) for o in objs]
            if lv[0] != 0 or lv[-1] != 0:
                ctx.violate("end_point_level", sig, "dim %d: end point levels are %d and %d" % (d, lv[0], lv[-1]))
            for i in range(1, len(lv) - 1):
                l = lv[i]
                if l < 1:
                    ctx.violate("level_tree", sig, "dim %d: inner point %d has level %d; levels=%s" % (d, i, l, lv))
                left = next((lv[j] for j in range(i - 1, -1, -1) if lv[j] < l), None)
                right = next((lv[j] for j in range(i + 1, len(lv)) if lv[j] < l), None)
                if left is None or right is None or max(left, right) != l - 1:
                    ctx.violate("level_tree", sig, "dim %d: point %d of level %d has nearest lower levels %r / %r; levels=%s" % (d, i, l, left, right, lv))
            if when != "initial" or True:
                for o in objs:
                    want = sa.lmax[d] - max(o.levels)
                    if o.coarsening_level != want or o.coarsening_level < 0:
                        ctx.violate("coarsening_level", sig, "dim %d: interval [%r,%r] levels %s has coarsening level %r, lmax=%r" % (d, o.start, o.end, list(o.levels), o.coarsening_level, sa.lmax[d]))
            if sa.lmax[d] < max(lv):
                ctx.violate("lmax_covers_levels", sig, "dim %d: lmax %r below deepest level %d" % (d, sa.lmax[d], max(lv)))
        ctx.ok("structure")


# ------------------------------------------------------------------ C03: combination monitor

class CombinationMonitor(Monitor):
    """component grids are nested tensor products; coefficient sum 1 at every sparse-grid point; the combined
    interpolant reproduces the (arbitrary) integrand at every sparse-grid point"""

    def sig(self, sim, **kw):
        c = sim.cfg
        s = {"strategy": "dimension_wise", "version": c["version"], "boundary": c["boundary"]}
        s.update(kw)
        return s

    def on_eval(self, sim):
        import numpy as np
        ctx, sa, dim = sim.ctx, sim.sa, sim.cfg["dim"]
        per = {}
        coeff = {}
        scheme = sim.scheme_map()
        if not scheme:
            ctx.violate("empty_scheme", self.sig(sim), "the combination scheme is empty")
        for cg in sa.scheme:
            lv = tuple(int(x) for x in cg.levelvector)
            coords, levels, _ = sa.get_point_coord_for_each_dim(lv)
            for d in range(dim):
                c = [float(x) for x in coords[d]]
                if any(c[i] >= c[i + 1] for i in range(len(c) - 1)):
                    ctx.violate("points_sorted", self.sig(sim), "component %s dim %d: points not strictly ascending: %s" % (lv, d, c))
                if c[0] != sim.cfg["a"][d] or c[-1] != sim.cfg["b"][d]:
                    ctx.violate("points_contain_ends", self.sig(sim), "component %s dim %d: points %s miss a domain end point" % (lv, d, c))
                key = (d, lv[d])
                if key in per and per[key] != c:
                    ctx.violate("points_depend_on_level_only", self.sig(sim),
                                "dim %d level %d: point list differs between components: %s vs %s (component %s)" % (d, lv[d], per[key], c, lv))
                per[key] = c
            pts = sa.get_points_component_grid(lv)
            ptset = set(tuple(float(x) for x in p) for p in pts)
            want = 1
            for d in range(dim):
                want *= (len(per[(d, lv[d])]) - (0 if sim.cfg["boundary"] else 2))
            if len(ptset) != want:
                ctx.violate("component_points_tensor", self.sig(sim), "component %s returns %d distinct points, tensor product has %d" % (lv, len(ptset), want))
            for p in ptset:
                coeff[p] = coeff.get(p, 0) + cg.coefficient
        for d in range(dim):
            ls = sorted(l for (dd, l) in per if dd == d)
            for l1, l2 in zip(ls, ls[1:]):
                if not set(per[(d, l1)]) <= set(per[(d, l2)]):
                    ctx.violate("points_monotone_in_level", self.sig(sim), "dim %d: points of level %d are not contained in level %d: %s vs %s" % (d, l1, l2, per[(d, l1)], per[(d, l2)]))
        ctx.ev("component_points", sorted((k, len(v)) for k, v in per.items()), sorted(scheme.items()))
        bad = [(p, c) for p, c in coeff.items() if c != 1]
        if bad:
            bad.sort()
            ctx.violate("coefficient_sum", self.sig(sim), "%d of %d sparse-grid points have coefficient sum != 1, e.g. %s; scheme=%s" % (len(bad), len(coeff), bad[:3], sorted(scheme.items())))
        ctx.ok("coefficient_sum", len(coeff))
        P = sorted(coeff.keys())
        if P:
            vals = np.asarray(sa(P))
            ref = np.array([sim.f.peek(p) for p in P])
            nn = sim.f.nnoise
            sabs = sum(abs(c) for c in scheme.values())
            tol = 64 * EPS * (1 + sabs) * (2.0 + abs(sim.cfg.get("offset", 0.0))) * max(4, len(scheme))
            diff = np.abs(vals[:, :nn] - ref[:, :nn])
            if diff.size and float(diff.max()) > tol:
                i = int(np.argmax(diff.max(axis=1)))
                ctx.violate("interpolant_reproduces_function", self.sig(sim),
                            "combined interpolant at grid point %s is %s, function value %s (tol %.2e); scheme=%s" % (P[i], vals[i, :nn].tolist(), ref[i, :nn].tolist(), tol, sorted(scheme.items())))
            ctx.ok("interpolant_reproduces_function", len(P))


# ------------------------------------------------------------------ C04: exactness monitor

def initial_space_probes(r, cfg, n):
    """random basis functions (and one random combination) of the initial (lmin,lmax) sparse-grid space"""
    dim, lmin, lmax = cfg["dim"], cfg["lmin"], cfg["lmax"]
    lo = 0 if cfg["boundary"] else 1
    budget = lmax + (dim - 1) * lmin

    def draw():
        # rejection-free: draw levels dimension by dimension inside the index set's downset
        ks = []
        used = 0
        order = list(range(dim))
        r.shuffle(order)
        kd = {}
        for pos, d in enumerate(order):
            rest = (dim - pos - 1) * lmin
            top = budget - used - rest          # max(k_d, lmin) <= top
            k = r.randint(lo, max(lo, top))
            kd[d] = k
            used += max(k, lmin)
        out = []
        for d in range(dim):
            k = kd[d]
            i = r.choice([0, 1]) if k == 0 else r.choice(range(1, 2 ** k, 2))
            out.append([k, i])
        return out
    probes = [["hat", draw()] for _ in range(n)]
    combo = [[round(r.uniform(-2, 2), 3), draw()] for _ in range(3)]
    probes.append(["combo", combo])
    return probes


def linear_probes(r, dim, n):
    return [["lin", [round(r.uniform(-2, 2), 3) for _ in range(dim + 1)]] for _ in range(n)]


class ExactnessMonitor(Monitor):
    """probe components (functions the initial configuration treats exactly) stay exact in the reported result
    and in the combined interpolant"""

    def __init__(self, npoints=6):
        self.npoints = npoints

    def sig(self, sim, **kw):
        c = sim.cfg
        if sim.strategy != "dimension_wise":
            s = {"strategy": sim.strategy, "version": c.get("version"), "boundary": c["boundary"],
                 "version12_lmin_ge_2": c.get("version") in (1, 2) and c["lmin"] >= 2, "automatic": c.get("automatic", False),
                 "single_dim": c.get("single_dim", False)}
            s.update(kw)
            return s
        s = {"strategy": "dimension_wise", "version": c["version"], "rebalancing": c["rebalancing"],
             "rotation_fired": bool(sim.ctx.probes.get("rebalancing")), "boundary": c["boundary"],
             "lmax_raised": any(int(x) > c["lmax"] for x in sim.sa.lmax),
             "modified_basis": c.get("modified_basis", False)}
        s.update(kw)
        return s

    @staticmethod
    def relevelled_points(sim):
        """per dimension: positions of points of the initial dyadic grid whose tree level was changed (only a
        rebalancing rotation does that)"""
        c = sim.cfg
        out = []
        L0 = c["lmax"]
        for d, objs in enumerate(sim.containers()):
            a, b = c["a"][d], c["b"][d]
            cur = [(float(o.end), int(o.levels[1])) for o in objs[:-1]]
            moved = []
            for i in range(1, 2 ** L0):
                x = a + (b - a) * i / 2 ** L0
                lev = L0
                ii = i
                while ii % 2 == 0:
                    ii //= 2
                    lev -= 1
                best = min(cur, key=lambda t: abs(t[0] - x)) if cur else None
                if best is None or abs(best[0] - x) > 1e-12 * max(1.0, abs(a), abs(b)) or best[1] != lev:
                    moved.append(x)
            out.append(moved)
        return out

    @staticmethod
    def probe_touches(spec, moved, c):
        hats = [spec[1]] if spec[0] == "hat" else ([hs for _, hs in spec[1]] if spec[0] == "combo" else [])
        for hs in hats:
            for d, (k, i) in enumerate(hs):
                a, b = c["a"][d], c["b"][d]
                if k == 0:
                    lo, hi = a, b
                else:
                    h = (b - a) / 2 ** k
                    lo, hi = a + (i - 1) * h, a + (i + 1) * h
                eps = 1e-12 * max(1.0, abs(a), abs(b))
                if any(lo - eps <= x <= hi + eps for x in moved[d]):
                    return True
        return False

    def fail_sig(self, sim, spec):
        if sim.strategy != "dimension_wise":
            return self.sig(sim, probe=spec[0])
        moved = self.relevelled_points(sim)
        return self.sig(sim, probe=spec[0], relevelled_in_support=self.probe_touches(spec, moved, sim.cfg))

    def on_eval(self, sim):
        import numpy as np
        from simcore.env import probe_integral, probe_value
        ctx, f, c = sim.ctx, sim.f, sim.cfg
        if "exactness" in ctx.tainted:
            return
        res = np.asarray(sim.op.get_result(), dtype=float)
        scheme = sim.scheme_map()
        sabs = 1 + sum(abs(v) for v in scheme.values())
        vol = float(np.prod(np.array(c["b"]) - np.array(c["a"])))
        amax = max(max(abs(x) for x in c["a"]), max(abs(x) for x in c["b"]), 1.0)
        if not hasattr(self, "dropped"):
            self.dropped = set()
        for j, spec in enumerate(f.probes):
            if j in self.dropped:
                continue
            want = probe_integral(spec, c["a"], c["b"])
            scale = vol * (6.0 * amax ** (c["dim"] if spec[0] in ("lin", "ml") else 1))
            tol = 256 * EPS * sabs * scale * max(8, len(scheme))
            got = float(res[f.nnoise + j])
            if not abs(got - want) <= tol:
                ctx.violate("probe_integral_exact", self.fail_sig(sim, spec),
                            "evaluation %d: probe %s integrates to %r, analytic value %r (tol %.2e); lmax=%s scheme=%s" % (
                                sim.n_eval, spec, got, want, tol, list(sim.sa.lmax), sorted(scheme.items())), taint="exactness")
                return
        ctx.ok("probe_integral_exact", len(f.probes))
        if not f.probes or "interpolation" in ctx.tainted or sim.strategy == "cell" or \
                (sim.strategy == "extend_split" and c.get("grid", "TrapezoidalGrid") != "TrapezoidalGrid"):
            return          # the cell scheme does not support interpolation; the other local grid families are checked on integrals
        # interpolation at seeded points: random interior points, interval end points, grid points
        P = []
        for k in range(self.npoints):
            p = []
            for d in range(c["dim"]):
                u = H(sim.rk, "ip", sim.n_eval, k, d)
                if k % 3 == 2 and sim.strategy == "dimension_wise":
                    objs = sim.containers()[d]
                    o = objs[int(u * len(objs)) % len(objs)]
                    x = float(o.end) if (o.end != c["b"][d] or c["boundary"]) else float(o.start)
                    if not c["boundary"] and (x == c["a"][d] or x == c["b"][d]):
                        x = 0.5 * (c["a"][d] + c["b"][d])
                else:
                    x = c["a"][d] + (c["b"][d] - c["a"][d]) * (0.02 + 0.96 * u)
                p.append(x)
            P.append(tuple(p))
        vals = np.asarray(sim.sa(P))
        for p, v in zip(P, vals):
            for j, spec in enumerate(f.probes):
                if j in self.dropped:
                    continue
                want = probe_value(spec, p, c["a"], c["b"])
                tol = 256 * EPS * sabs * 6.0 * (amax ** (c["dim"] if spec[0] in ("lin", "ml") else 1)) * max(8, len(scheme))
                got = float(v[f.nnoise + j])
                if not abs(got - want) <= tol:
                    ctx.violate("probe_interpolation_exact", self.fail_sig(sim, spec),
                                "evaluation %d: probe %s interpolated at %s gives %r, exact %r (tol %.2e); scheme=%s" % (
                                    sim.n_eval, spec, p, got, want, tol, sorted(scheme.items())),
                                taint="interpolation" if c.get("modified_basis") else "exactness")
                    return
        ctx.ok("probe_interpolation_exact", len(P) * len(f.probes))


# ------------------------------------------------------------------ C05: result oracle (R-quad)

def trapezoid_weights(xs):
    n = len(xs)
    w = [0.0] * n
    for i in range(n - 1):
        h = 0.5 * (xs[i + 1] - xs[i])
        w[i] += h
        w[i + 1] += h
    return w


def rquad_component(f, coords, boundary):
    """composite trapezoid, tensorised, on the reported 1-D point lists of one component grid; values from the
    stub's non-counting evaluator; zero boundary values when boundary points are off. Returns (value, sum |w f|)."""
    import itertools
    import numpy as np
    lists = []
    for c in coords:
        xs = [float(x) for x in c]
        w = trapezoid_weights(xs)
        if not boundary:
            xs, w = xs[1:-1], w[1:-1]
        lists.append(list(zip(xs, w)))
    tot = np.zeros(f.output_length())
    sabs = 0.0
    for combo in itertools.product(*lists):
        w = 1.0
        for (_, wi) in combo:
            w *= wi
        v = np.asarray(f.peek(tuple(x for x, _ in combo)), dtype=float)
        tot += w * v
        sabs += abs(w) * float(np.max(np.abs(v)))
    return tot, sabs


class ResultOracle:
    """clauses of C05 evaluated at a stop of the driver"""

    def __init__(self, sim):
        self.sim = sim

    def sig(self, **kw):
        c = self.sim.cfg
        s = {"strategy": getattr(self.sim, "strategy", "dimension_wise"),
             "grid": c.get("grid", "GlobalTrapezoidalGrid" if getattr(self.sim, "strategy", "dimension_wise") == "dimension_wise" else "TrapezoidalGrid")}
        s.update(kw)
        return s

    def recompute(self):
        import numpy as np
        sim = self.sim
        if hasattr(sim, "recompute_result"):
            return sim.recompute_result()
        tot = np.zeros(sim.f.output_length())
        S = 0.0
        n = 0
        other = sim.cfg.get("grid", "GlobalTrapezoidalGrid") != "GlobalTrapezoidalGrid"
        for cg in sim.sa.scheme:
            lv = tuple(int(x) for x in cg.levelvector)
            coords, levels, _ = sim.sa.get_point_coord_for_each_dim(lv)
            if other:
                # hierarchical / high-order rules: "the operation applied independently" = a fresh instance of the grid class
                # set to the reported points and levels, and an un-cached twin of the integrand
                from simcore.env import SimFunction
                g = make_global_grid(sim.cfg)
                g.set_grid(coords, levels)
                f2 = SimFunction(sim.f.key, nnoise=sim.f.nnoise, probes=sim.f.probes, a=sim.f.a, b=sim.f.b, jump=sim.f.jump, offset=sim.f.offset)
                v = np.asarray(g.integrate(f2, list(lv), sim.a, sim.b), dtype=float)
                sabs = float(np.prod([np.sum(np.abs(np.asarray(w, dtype=float))) for w in g.weights])) * (2.0 + abs(sim.f.offset)) if hasattr(g, "weights") else 10.0
            else:
                v, sabs = rquad_component(sim.f, coords, sim.cfg["boundary"])
            tot += cg.coefficient * v
            S += abs(cg.coefficient) * sabs
            n += 1
        return tot, S, n

    def close(self, x, y, S, n):
        import numpy as np
        tol = 64 * EPS * max(n, 4) * max(S, 1e-300) * 8
        return bool(np.all(np.abs(np.asarray(x, dtype=float) - np.asarray(y, dtype=float)) <= tol)), tol

    def at_stop(self, reported, label, final_combi=True, points_weights=True):
        import numpy as np
        sim, ctx = self.sim, self.sim.ctx
        reported = np.array(reported, dtype=float)
        want, S, n = self.recompute()
        ok, tol = self.close(reported, want, S, n)
        ctx.ev("stop", label, [float(x).hex() for x in reported])
        if not ok:
            ctx.violate("reported_equals_combination", self.sig(stop=label),
                        "%s: reported %s, coefficient-weighted sum of independently recomputed component results %s (tol %.2e); scheme=%s" % (
                            label, reported.tolist(), want.tolist(), tol, sorted(sim.scheme_map().items())), taint="result")
        ctx.ok("reported_equals_combination")
        got = np.array(sim.op.get_result(), dtype=float)
        ok2, _ = self.close(got, reported, S, n)
        if not ok2 and "result" not in ctx.tainted:
            ctx.violate("get_result_equals_reported", self.sig(stop=label), "%s: operation.get_result() %s differs from the returned result %s" % (label, got.tolist(), reported.tolist()))
        if points_weights and "result" not in ctx.tainted:
            P, W = sim.sa.get_points_and_weights()
            acc = np.zeros(sim.f.output_length())
            for p, w in zip(P, W):
                acc += w * np.asarray(sim.f.peek(tuple(float(x) for x in p)), dtype=float)
            ok3, tol3 = self.close(acc, reported, S, n)
            if not ok3:
                ctx.violate("points_and_weights_reproduce_integral", self.sig(stop=label),
                            "%s: sum w_i f(x_i) over get_points_and_weights() = %s, reported integral %s (tol %.2e)" % (label, acc.tolist(), reported.tolist(), tol3))
            ctx.ok("points_and_weights_reproduce_integral")
        import os
        if final_combi and not os.environ.get("VERIF_DEBUG_NO_FINAL_COMBI"):
            # from-scratch re-evaluation is done on a deep copy so that the live instance of the history is left alone
            clone = copy.deepcopy(sim.sa)
            live, sim_sa = sim.sa, clone
            with seams.quiet():
                r1, _ = clone.evaluate_final_combi()
            r1 = np.array(r1, dtype=float)
            ok4, tol4 = self.close(r1, want, S, n)
            ctx.fault("reevaluate_from_scratch")
            if not ok4:
                ctx.violate("final_combi_equals_reported", self.sig(stop=label),
                            "%s: evaluate_final_combi() = %s, reported/recomputed %s (tol %.2e)" % (label, r1.tolist(), want.tolist(), tol4), taint="final_combi")
            if "final_combi" not in ctx.tainted:
                with seams.quiet():
                    r2, _ = clone.evaluate_final_combi()
                ok5, _ = self.close(np.array(r2, dtype=float), r1, S, n)
                if not ok5:
                    ctx.violate("final_combi_idempotent", self.sig(stop=label), "%s: second evaluate_final_combi() = %s, first %s" % (label, list(r2), r1.tolist()), taint="final_combi")
                ctx.ok("final_combi_idempotent")
        return want, S, n
