"""extendsplit_sim - the extend-split strategy (and the cell strategy) under simulated environments.

Real code: SpatiallyAdaptiveExtendScheme, RefinementObjectExtendSplit, RefinementContainer, CombiScheme (closed form),
Integration on the local TrapezoidalGrid, interpolation. Stubs: integrand values, error-estimator answers (unless the
real ErrorCalculatorExtendSplit is configured), clocks.
"""
import copy, itertools
from simcore.seeds import stream, H
from simcore import seams
from engines import dimwise_sim as DS
from engines.dimwise_sim import EPS, Monitor, StopRun


def gen_cfg(r, tier, estimator="keyed"):
    dim = r.choice([2, 2, 2, 3])
    lmin = r.choice([1, 1, 1, 2])
    lmax = lmin + r.choice([0, 1, 1, 1, 2] if dim == 2 else [0, 1, 1])
    a = [r.choice(DS.A_CHOICES) for _ in range(dim)]
    b = [a[d] + r.choice(DS.W_CHOICES) for d in range(dim)]
    cfg = {"dim": dim, "a": a, "b": b, "lmin": lmin, "lmax": lmax, "version": r.choice([0, 0, 0, 1, 2]),
           "nref": r.choice([1, 1, 2, 3]), "automatic": r.random() < 0.2, "single_dim": r.random() < 0.15,
           "boundary": r.random() < 0.7, "margin": r.choice([0.0, 0.25, 0.5, 0.9, 0.9, 1.0]),
           "estimator": estimator, "p_zero": r.choice([0.0, 0.2, 0.4, 0.7, 0.95]), "p_tie": r.choice([0.0, 0.1, 0.3]),
           "mode": r.choice(["mix"] * 8 + ["equal", "zero"]), "use_epoch": r.random() < 0.7, "nnoise": r.choice([1, 1, 2]),
           "jump": r.random() < 0.3, "norm": r.choice([1, 2, "inf"]),
           "evals": r.randint(1, 5 if tier == "quick" else 8),
           "max_leaves": 60 if tier == "quick" else 150, "max_points": 2500 if tier == "quick" else 6000,
           "clock_jumps": r.random() < 0.3, "recalc": r.choice([None, None, None, 1, 2, 3, 5])}
    if r.random() < 0.18:
        # long single-dimension-splitting histories (mostly with the automatic decision) on a smooth coordinate-symmetric integrand:
        # equal twin errors make a leaf split along several dimensions at once, after initial areas have been extended
        cfg.update(dim=2, a=[0.0, 0.0], b=[1.0, 1.0], lmin=1, lmax=2, version=r.choice([0, 0, 0, 1, 2]), single_dim=True, automatic=r.random() < 0.65,
                   nref=r.choice([1, 1, 2]), symmetric=True, nnoise=1, jump=False, boundary=True, evals=r.randint(6, 12 if tier == "quick" else 18),
                   estimator=r.choice(["real", "keyed"]), p_zero=r.choice([0.0, 0.2]), margin=r.choice([0.5, 0.9]), recalc=None,
                   max_leaves=400, max_points=4000)
    elif r.random() < 0.08:
        # long three-dimensional histories in the coarsening versions 1 / 2: several lmax-raising extends by different regions while
        # earlier raisers are left behind (the same level vector moves from the second to the third diagonal of the scheme)
        lm = r.choice([1, 2, 2])
        cfg.update(dim=3, a=[0.0, 0.0, 0.0], b=[1.0, 1.0, r.choice([1.0, 2.0])], lmin=lm, lmax=lm + r.choice([1, 1, 2]), version=r.choice([1, 1, 2]), nref=1, single_dim=False,
                   automatic=r.random() < 0.3, margin=r.choice([0.9, 1.0]), p_zero=0.0, p_tie=0.0, mode="mix", recalc=None,
                   evals=r.randint(6, 9 if tier == "quick" else 12), max_leaves=400, max_points=6000, long_3d=True)
    return cfg


def simplify_cfg(s):
    c = s["config"]
    for k, v in (("automatic", False), ("single_dim", False), ("jump", False), ("clock_jumps", False), ("recalc", None),
                 ("mode", "mix"), ("use_epoch", False), ("nnoise", 1), ("norm", "inf"), ("nref", 1), ("version", 0)):
        if k in c and c[k] != v:
            n = copy.deepcopy(s); n["config"][k] = v; yield n
    if c.get("evals", 1) > 1:
        n = copy.deepcopy(s); n["config"]["evals"] -= 1; yield n
    if c["lmax"] > c["lmin"]:
        n = copy.deepcopy(s); n["config"]["lmax"] -= 1; yield n
    if c["lmin"] > 1:
        n = copy.deepcopy(s); n["config"]["lmin"] -= 1; n["config"]["lmax"] -= 1; yield n
    if c["dim"] > 2:
        n = copy.deepcopy(s); n["config"]["dim"] = 2; n["config"]["a"] = c["a"][:2]; n["config"]["b"] = c["b"][:2]; yield n
    if any(x != 0.0 for x in c["a"]) or any(y - x != 1.0 for x, y in zip(c["a"], c["b"])):
        n = copy.deepcopy(s); n["config"]["a"] = [0.0] * c["dim"]; n["config"]["b"] = [1.0] * c["dim"]; yield n
    for pz in (0.0, 0.4):
        if c.get("p_zero") not in (None, pz):
            n = copy.deepcopy(s); n["config"]["p_zero"] = pz; yield n
    if c.get("p_tie"):
        n = copy.deepcopy(s); n["config"]["p_tie"] = 0.0; yield n


LOCAL_GRIDS = ["TrapezoidalGrid", "LagrangeGrid2", "ClenshawCurtisGrid", "GaussLegendreGrid", "SimpsonGrid"]   # LejaGrid runs too (minutes per run: point optimisation) and is left out


def make_local_grid(cfg):
    """local grid families that run in the extend-split strategy in the pinned environment (BSplineGrid asserts)"""
    import numpy as np
    import sparseSpACE.Grid as G
    a, b = np.array(cfg["a"], dtype=float), np.array(cfg["b"], dtype=float)
    name = cfg.get("grid", "TrapezoidalGrid")
    if name == "TrapezoidalGrid":
        return G.TrapezoidalGrid(a=a, b=b, boundary=cfg["boundary"])
    if name == "MixedGrid":
        # tensor grid of 1-D families chosen per dimension, each with its own boundary flag
        kinds = {"Trapezoidal": G.TrapezoidalGrid1D, "Simpson": G.SimpsonGrid1D, "ClenshawCurtis": G.ClenshawCurtisGrid1D,
                 # trapezoidal rule without boundary points whose outermost hats are extrapolated linearly (exact for linear functions)
                 "TrapezoidalMod": lambda a, b, boundary: G.TrapezoidalGrid1D(a=a, b=b, boundary=False, modified_basis=True)}
        return G.MixedGrid(a=a, b=b, grids=[kinds[k](a=a[d], b=b[d], boundary=bool(bd)) for d, (k, bd) in enumerate(cfg["mixed"])])
    if name == "LagrangeGrid2":
        return G.LagrangeGrid(a=a, b=b, boundary=True, p=2)
    if name == "GaussLegendreGrid":
        return G.GaussLegendreGrid(a=a, b=b)
    return getattr(G, name)(a=a, b=b, boundary=True)


class ExtendSplitSim(DS.DimwiseSim):
    strategy = "extend_split"

    def build(self, probes=(), reference=None, f=None):
        import numpy as np
        from sparseSpACE.spatiallyAdaptiveExtendSplit import SpatiallyAdaptiveExtendScheme
        from sparseSpACE.GridOperation import Integration
        from sparseSpACE.Grid import TrapezoidalGrid
        from sparseSpACE.ErrorCalculator import ErrorCalculatorExtendSplit
        from simcore.env import SimFunction, SimErrorCalculator
        c = self.cfg
        DS.install_observers()
        a, b = np.array(c["a"], dtype=float), np.array(c["b"], dtype=float)
        self.a, self.b = a, b
        # configuration class carried by the signature of any exception the library raises in this run
        self.ctx.exc_sig = {"strategy": "extend_split", "automatic": c["automatic"], "lmin_equals_lmax": c["lmin"] == c["lmax"], "single_dim": bool(c.get("single_dim", False)),
                            "boundary": c["boundary"], "version12_lmin_ge_2": c["version"] in (1, 2) and c["lmin"] >= 2}
        if c.get("clock_jumps"):
            r = stream(self.rk, "faults")
            seams.CLOCK.jumps = {r.randrange(1, 40): r.choice([0.5, 60.0, 86400.0]) for _ in range(3)}
        if f is None:
            f = SimFunction(self.rk, nnoise=c.get("nnoise", 1), probes=probes, a=c["a"], b=c["b"],
                            jump=(c["a"][0] + 0.3 * (c["b"][0] - c["a"][0])) if c.get("jump") else None,
                            offset=c.get("offset", 0.0), symmetric=c.get("symmetric", False))
        self.f = f
        grid = make_local_grid(c)
        self.op = Integration(f=f, grid=grid, dim=c["dim"], reference_solution=None if reference is None else np.array(reference, dtype=float),
                              print_level=100, log_level=100)
        norm = np.inf if c.get("norm", "inf") == "inf" else c["norm"]
        self.sa = SpatiallyAdaptiveExtendScheme(a, b, number_of_refinements_before_extend=c["nref"], version=c["version"],
                                                automatic_extend_split=c["automatic"], split_single_dim=c["single_dim"],
                                                operation=self.op, norm=norm)
        self.sa.margin = c["margin"]
        self.sa.log_util.set_print_level(100)
        self.sa.log_util.set_log_level(100)
        if c.get("estimator", "keyed") == "real":
            self.err = ErrorCalculatorExtendSplit()
            self.ctx.real.add("ErrorCalculatorExtendSplit")
        else:
            self.err = SimErrorCalculator(self.rk, p_zero=c["p_zero"], p_tie=c["p_tie"], mode=c.get("mode", "mix"),
                                          use_epoch=c.get("use_epoch", False))
        return self

    def leaves(self):
        return list(self.sa.refinement.get_objects())

    def containers(self):
        return [self.leaves()]

    def structure_key(self):
        return sorted((tuple(float(x).hex() for x in o.start), tuple(float(x).hex() for x in o.end), int(o.coarseningValue),
                       int(o.needExtendScheme)) for o in self.leaves()) + [tuple(int(x) for x in self.sa.lmax)]

    def too_big(self):
        c = self.cfg
        return len(self.leaves()) > c.get("max_leaves", 60) or len(self.f.seen) > c.get("max_points", 2500)

    # R-quad for one leaf and one coarsened level: own equidistant points and trapezoid weights
    def local_quad(self, leaf, level_coarse):
        import numpy as np
        c = self.cfg
        lists = []
        for d in range(c["dim"]):
            s, e = float(leaf.start[d]), float(leaf.end[d])
            n = 2 ** int(level_coarse[d])
            xs = [s + (e - s) * i / n for i in range(n + 1)]
            xs[-1] = e
            w = DS.trapezoid_weights(xs)
            pts = list(zip(xs, w))
            if not c["boundary"]:
                pts = [(x, wi) for x, wi in pts if not (x == c["a"][d] or x == c["b"][d])]
            lists.append(pts)
        tot = np.zeros(self.f.output_length())
        sabs = 0.0
        for combo in itertools.product(*lists):
            w = 1.0
            for (_, wi) in combo:
                w *= wi
            v = np.asarray(self.f.peek(tuple(x for x, _ in combo)), dtype=float)
            tot += w * v
            sabs += abs(w) * float(np.max(np.abs(v)))
        return tot, sabs

    def fresh_quad(self, leaf, level_coarse):
        """the operation applied independently: a fresh instance of the library's grid class and an un-cached twin of
        the integrand (the property is about bookkeeping, not about the local quadrature rule, which has a midpoint
        special case for one-point grids without boundary)"""
        import numpy as np
        from sparseSpACE.Grid import TrapezoidalGrid
        from simcore.env import SimFunction
        c = self.cfg
        g = make_local_grid(c)
        f2 = SimFunction(self.f.key, nnoise=self.f.nnoise, probes=self.f.probes, a=self.f.a, b=self.f.b, jump=self.f.jump, offset=self.f.offset,
                         symmetric=getattr(self.f, "symmetric", False))
        v = np.asarray(g.integrate(f2, [int(x) for x in level_coarse], np.array(leaf.start, dtype=float), np.array(leaf.end, dtype=float)), dtype=float)
        g.setCurrentArea(np.array(leaf.start, dtype=float), np.array(leaf.end, dtype=float), [int(x) for x in level_coarse])
        P, W = g.get_points_and_weights()
        sabs = sum(abs(w) for w in W) * (2.0 + abs(self.f.offset)) if len(W) else 0.0
        return v, float(sabs)

    def recompute_result(self):
        import numpy as np
        tot = np.zeros(self.f.output_length())
        S = 0.0
        n = 0
        for leaf in self.leaves():
            for cg in self.sa.scheme:
                lv, do = self.sa.coarsen_grid(cg.levelvector, leaf)
                if do:
                    v, sabs = self.fresh_quad(leaf, lv)
                    tot += cg.coefficient * v
                    S += abs(cg.coefficient) * sabs
                    n += 1
        return tot, S, n


# ------------------------------------------------------------------ C07: area monitor

class AreaMonitor(Monitor):
    def __init__(self, npoints=24, check_local=True):
        self.npoints = npoints
        self.prev = None
        self.check_local = check_local

    def sig(self, sim, **kw):
        c = sim.cfg
        s = {"strategy": "extend_split", "version": c["version"], "lmin_ge_2": c["lmin"] >= 2, "automatic": c["automatic"],
             "single_dim": c["single_dim"], "boundary": c["boundary"]}
        s.update(kw)
        return s

    def on_eval(self, sim):
        self.check_tiling(sim, "after_evaluation")
        self.check_assignment(sim)
        self.check_local_combination(sim)
        for o in sim.leaves():
            if o.benefit is not None and o.benefit < 0:
                sim.ctx.violate("benefit_non_negative", self.sig(sim), "area %s-%s has benefit %r" % (list(o.start), list(o.end), o.benefit))

    def pre_refine(self, sim):
        self.prev = [(tuple(float(x) for x in o.start), tuple(float(x) for x in o.end)) for o in sim.leaves()]
        ben = [o.benefit for o in sim.leaves()]
        mx = max(ben) if ben else 0
        n = sum(1 for bb in ben if bb >= mx * sim.sa.margin)
        if n == 1:
            sim.ctx.probe("single_area_step")
        if n == len(ben):
            sim.ctx.probe("refine_everything_step")
        sim.ctx.ev("pre_refine", n, len(ben))

    def post_refine(self, sim):
        ctx = sim.ctx
        self.check_tiling(sim, "after_refine")
        # refinement relation: every old leaf persists or is exactly tiled by new leaves
        now = [(tuple(float(x) for x in o.start), tuple(float(x) for x in o.end)) for o in sim.leaves()]
        nowset = set(now)
        dim = sim.cfg["dim"]
        for (s, e) in self.prev or []:
            if (s, e) in nowset:
                continue
            inside = [(s2, e2) for (s2, e2) in now if all(s[d] <= s2[d] and e2[d] <= e[d] for d in range(dim))]
            vol = sum(_vol(s2, e2) for s2, e2 in inside)
            if not inside or abs(vol - _vol(s, e)) > 1e-12 * _vol(s, e):
                ctx.violate("refined_area_tiled_by_children", self.sig(sim), "old leaf %s-%s is neither kept nor tiled by new leaves %s" % (s, e, inside))
            if len(inside) > 1:
                ctx.probe("split")
        if len(now) == len(self.prev or []) and set(now) == set(self.prev or []):
            ctx.probe("extend_only_step")
        self.check_assignment(sim, fixed_only=True)

    def check_tiling(self, sim, when):
        ctx, c = sim.ctx, sim.cfg
        dim = c["dim"]
        leaves = sim.leaves()
        sig = self.sig(sim, when=when)
        tot = _vol(c["a"], c["b"])
        vol = 0.0
        boxes = []
        for o in leaves:
            s = [float(x) for x in o.start]; e = [float(x) for x in o.end]
            if len(s) != dim or len(e) != dim:
                ctx.violate("area_box", sig, "area has wrong dimension")
            for d in range(dim):
                if not (c["a"][d] <= s[d] < e[d] <= c["b"][d]):
                    ctx.violate("area_box", sig, "area %s-%s is not a box of positive width inside the domain" % (s, e))
            if o.coarseningValue < 0:
                ctx.violate("coarsening_non_negative", sig, "area %s-%s has coarsening value %r" % (s, e, o.coarseningValue))
            vol += _vol(s, e)
            boxes.append((s, e))
        for i in range(len(boxes)):
            s, e = boxes[i]
            for j in range(i + 1, len(boxes)):
                s2, e2 = boxes[j]
                if all(max(s[d], s2[d]) < min(e[d], e2[d]) for d in range(dim)):
                    ctx.violate("areas_disjoint", sig, "areas %s-%s and %s-%s overlap" % (s, e, s2, e2))
        if abs(vol - tot) > 1e-12 * tot * max(4, len(boxes)):
            ctx.violate("areas_cover_domain", sig, "leaf volumes sum to %r, domain volume %r" % (vol, tot))
        ctx.ok("tiling")

    def seeded_points(self, sim):
        c = sim.cfg
        leaves = sim.leaves()
        P = []
        for k in range(self.npoints):
            o = leaves[int(H(sim.rk, "ap", sim.n_eval, k) * len(leaves)) % len(leaves)]
            p = []
            kind = k % 4
            for d in range(c["dim"]):
                u = H(sim.rk, "ap", sim.n_eval, k, d)
                s, e = float(o.start[d]), float(o.end[d])
                if kind == 0:                         # interior
                    x = s + (e - s) * (0.05 + 0.9 * u)
                elif kind == 1:                       # on a face in dimension 0
                    x = (s if u < 0.5 else e) if d == 0 else s + (e - s) * (0.05 + 0.9 * u)
                elif kind == 2:                       # corner of the leaf
                    x = s if u < 0.5 else e
                else:                                 # on the domain boundary in dimension d == k % dim
                    x = (c["a"][d] if u < 0.5 else c["b"][d]) if d == (k // 4) % c["dim"] else s + (e - s) * (0.05 + 0.9 * u)
                p.append(x)
            P.append(tuple(p))
        return sorted(set(P))

    def fixed_points(self, sim):
        """A point set that depends on the run only, not on the step: dyadic lattice points (shared faces and corners of
        areas at every depth) and interior points. The same coordinates are asked for after every evaluation and every
        refinement step, so an answer remembered from an earlier tree shows."""
        c = sim.cfg
        P = []
        for k in range(self.npoints):
            p = []
            for d in range(c["dim"]):
                u = H(sim.rk, "fp", k, d)
                a, b = c["a"][d], c["b"][d]
                if k % 2 == 0:
                    x = a + (b - a) * int(u * 17) / 16.0
                else:
                    x = a + (b - a) * (0.01 + 0.98 * H(sim.rk, "fpi", k, d))
                p.append(x)
            P.append(tuple(p))
        return sorted(set(P))

    def check_assignment(self, sim, fixed_only=False):
        if not fixed_only:
            self._check_assignment(sim, self.seeded_points(sim))
        self._check_assignment(sim, self.fixed_points(sim))

    def _check_assignment(self, sim, P):
        ctx = sim.ctx
        leafids = set(id(o) for o in sim.leaves())
        res = sim.sa.get_points_assignement_to_areas(list(P))
        seen = {}
        for area, pts in res:
            for p in pts:
                p = tuple(float(x) for x in p)
                seen[p] = seen.get(p, 0) + 1
                if not all(float(area.start[d]) <= p[d] <= float(area.end[d]) for d in range(sim.cfg["dim"])):
                    ctx.violate("point_assignment", self.sig(sim), "point %s assigned to area %s-%s that does not contain it" % (p, list(area.start), list(area.end)))
                if id(area) not in leafids:
                    ctx.violate("point_assignment", self.sig(sim), "point %s assigned to a non-leaf area %s-%s" % (p, list(area.start), list(area.end)))
        bad = [(p, seen.get(p, 0)) for p in P if seen.get(p, 0) != 1]
        if bad:
            ctx.violate("point_assignment", self.sig(sim), "points not assigned exactly once: %s" % bad[:4])
        ctx.ok("point_assignment", len(P))

    def check_local_combination(self, sim):
        import numpy as np
        ctx, sa, c = sim.ctx, sim.sa, sim.cfg
        leaves = sim.leaves()
        allpts = {}
        per_leaf = []
        for o in leaves:
            cnt = {}
            ncomp = 0
            for cg in sa.scheme:
                lv, do = sa.coarsen_grid(cg.levelvector, o)
                if do:
                    ncomp += 1
                    sa.grid.setCurrentArea(o.start, o.end, lv)
                    for p in sa.grid.getPoints():
                        p = tuple(float(x) for x in p)
                        cnt[p] = cnt.get(p, 0) + cg.coefficient
            if ncomp == 0:
                ctx.violate("leaf_without_component", self.sig(sim), "area %s-%s computes no component grid" % (list(o.start), list(o.end)))
            bad = sorted((p, v) for p, v in cnt.items() if v != 1)
            if bad:
                ctx.violate("local_coefficient_sum", self.sig(sim, coarsening_positive=bool(o.coarseningValue > 0)),
                            "area %s-%s (coarsening %d, lmax %s): %d of %d grid points have coefficient sum != 1, e.g. %s" % (
                                list(o.start), list(o.end), o.coarseningValue, list(sa.lmax), len(bad), len(cnt), bad[:3]), taint="local")
            per_leaf.append(cnt)
            for p in cnt:
                allpts[p] = allpts.get(p, 0) + 1
        ctx.ok("local_coefficient_sum", len(allpts))
        if not self.check_local or "local" in ctx.tainted:
            return
        # local reproduction at grid points that belong to exactly one leaf (not on a face shared with another leaf)
        P = []
        for o, cnt in zip(leaves, per_leaf):
            for p in cnt:
                if allpts[p] == 1 and not any(q is not o and all(float(q.start[d]) <= p[d] <= float(q.end[d]) for d in range(c["dim"])) for q in leaves):
                    P.append(p)
        P = sorted(set(P))[:400]
        if P:
            try:
                vals = np.asarray(sa(P))
            except Exception as e:
                if getattr(e, "harness", False):
                    raise
                ctx.violate("local_interpolation_raises", self.sig(sim, exception=type(e).__name__),
                            "__call__ on %d grid points of leaves raised %s: %s" % (len(P), type(e).__name__, str(e)[:200]), taint="local")
                return
            ref = np.array([sim.f.peek(p) for p in P])
            nn = sim.f.nnoise
            sabs = 1 + sum(abs(cg.coefficient) for cg in sa.scheme)
            tol = 64 * EPS * sabs * 3.0 * max(4, len(sa.scheme))
            diff = np.abs(vals[:, :nn] - ref[:, :nn])
            if float(diff.max()) > tol:
                i = int(np.argmax(diff.max(axis=1)))
                ctx.violate("local_interpolant_reproduces_function", self.sig(sim),
                            "interpolant at grid point %s is %s, function value %s (tol %.2e)" % (P[i], vals[i, :nn].tolist(), ref[i, :nn].tolist(), tol))
            ctx.ok("local_interpolant_reproduces_function", len(P))


def _vol(s, e):
    v = 1.0
    for x, y in zip(s, e):
        v *= (float(y) - float(x))
    return v


# ------------------------------------------------------------------ cell strategy (supported configuration: lmin == lmax)

def gen_cell_cfg(r, tier):
    dim = r.choice([2, 2, 3])
    l = r.choice([1, 2, 2, 3] if dim == 2 else [1, 2])
    a = [r.choice(DS.A_CHOICES) for _ in range(dim)]
    b = [a[d] + r.choice(DS.W_CHOICES) for d in range(dim)]
    cfg = {"dim": dim, "a": a, "b": b, "lmin": l, "lmax": l, "boundary": True, "margin": r.choice([0.0, 0.5, 0.9, 0.9, 1.0]),
           "estimator": "keyed", "p_zero": r.choice([0.0, 0.2, 0.4, 0.7]), "p_tie": r.choice([0.0, 0.1, 0.3]),
           "mode": r.choice(["mix"] * 8 + ["equal", "zero"]), "use_epoch": r.random() < 0.7, "nnoise": r.choice([1, 1, 2]),
           "jump": r.random() < 0.3, "norm": r.choice([1, 2, "inf"]), "evals": r.randint(1, 5 if tier == "quick" else 8),
           "max_leaves": 200 if tier == "quick" else 500, "max_points": 2500, "clock_jumps": r.random() < 0.3, "recalc": None}
    if r.random() < 0.3:
        # narrow boxes away from the origin, deep selective histories from the coarsest start: the cell tree's parent / child
        # geometry is exercised where cell indices and coordinates differ most
        cfg.update(dim=2, lmin=1, lmax=1, margin=r.choice([0.9, 0.9, 1.0]), p_zero=0.0, p_tie=0.0, mode="mix",
                   evals=r.randint(4, 8 if tier == "quick" else 12))
        cfg["a"] = [r.choice([2.0, -0.5, -1.0, 0.0, 5.0]) for _ in range(2)]
        cfg["b"] = [x + r.choice([0.5, 0.5, 0.25]) for x in cfg["a"]]
    return cfg


class CellSim(ExtendSplitSim):
    strategy = "cell"

    def build(self, probes=(), reference=None, f=None):
        import numpy as np
        from sparseSpACE.spatiallyAdaptiveCell import SpatiallyAdaptiveCellScheme
        from sparseSpACE.GridOperation import Integration
        from sparseSpACE.Grid import TrapezoidalGrid
        from sparseSpACE.ErrorCalculator import ErrorCalculatorSurplusCell
        from sparseSpACE.combiScheme import CombiScheme
        from simcore.env import SimFunction, SimErrorCalculator
        c = self.cfg
        DS.install_observers()
        a, b = np.array(c["a"], dtype=float), np.array(c["b"], dtype=float)
        self.a, self.b = a, b
        self.ctx.exc_sig = {"strategy": "cell"}
        if f is None:
            f = SimFunction(self.rk, nnoise=c.get("nnoise", 1), probes=probes, a=c["a"], b=c["b"],
                            jump=(c["a"][0] + 0.3 * (c["b"][0] - c["a"][0])) if c.get("jump") else None, offset=c.get("offset", 0.0))
        self.f = f
        self.op = Integration(f=f, grid=TrapezoidalGrid(a=a, b=b, boundary=True), dim=c["dim"],
                              reference_solution=None if reference is None else np.array(reference, dtype=float), print_level=100, log_level=100)
        norm = np.inf if c.get("norm", "inf") == "inf" else c["norm"]
        self.sa = SpatiallyAdaptiveCellScheme(a, b, operation=self.op, norm=norm)
        self.sa.margin = c["margin"]
        self.sa.log_util.set_print_level(100)
        self.sa.log_util.set_log_level(100)
        if c.get("estimator", "keyed") == "real":
            self.err = ErrorCalculatorSurplusCell()
            self.ctx.real.add("ErrorCalculatorSurplusCell")
        else:
            self.err = SimErrorCalculator(self.rk, p_zero=c["p_zero"], p_tie=c["p_tie"], mode=c.get("mode", "mix"), use_epoch=c.get("use_epoch", False))
        return self

    def perform(self, *a, **k):
        from sparseSpACE.combiScheme import CombiScheme
        try:
            return super().perform(*a, **k)
        finally:
            # the cell scheme writes class attributes of CombiScheme; scrub them so that no state leaks into the next run
            for attr in ("dim", "lmin"):
                if attr in CombiScheme.__dict__:
                    delattr(CombiScheme, attr)

    def structure_key(self):
        return sorted((tuple(float(x).hex() for x in o.start), tuple(float(x).hex() for x in o.end), bool(getattr(o, "active", True)))
                      for o in self.leaves())
