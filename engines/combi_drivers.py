"""Drivers for the non-spatially-adaptive strategies named by C05: StandardCombi (repeated perform_operation calls on
one instance) and DimAdaptiveCombi (refinement history scheduled through the surplus answers)."""
import numpy as np
from simcore.seeds import H
from engines.dimwise_sim import EPS, A_CHOICES, W_CHOICES


def gen_standard_cfg(r, tier):
    dim = r.choice([1, 2, 2, 3, 3, 4])
    calls = []
    for _ in range(r.randint(1, 3)):
        lmin = r.choice([1, 1, 2, 3])
        lmax = lmin + r.choice([0, 1, 2, 3] if dim <= 3 else [0, 1, 2])
        calls.append([lmin, lmax])
    a = [r.choice(A_CHOICES) for _ in range(dim)]
    cfg = {"strategy": "standard", "dim": dim, "a": a, "b": [a[d] + r.choice(W_CHOICES) for d in range(dim)],
           "boundary": r.random() < 0.7, "calls": calls, "nnoise": r.choice([1, 2, 3])}
    _draw_grid(r, cfg)
    return cfg


# local grid families that run under StandardCombi / DimAdaptiveCombi in the pinned environment ("every grid type" of C05);
# NODAL = families whose public points and combined weights are a quadrature rule (clause 5 of C05)
STD_GRIDS = ["TrapezoidalGrid", "ClenshawCurtisGrid", "GaussLegendreGrid", "SimpsonGrid", "LejaGrid", "LagrangeGrid2", "LagrangeGrid3", "BSplineGrid3"]
NODAL = ("TrapezoidalGrid", "ClenshawCurtisGrid", "GaussLegendreGrid", "SimpsonGrid", "LejaGrid")


def _draw_grid(r, cfg):
    cfg["grid"] = r.choice(["TrapezoidalGrid"] * 5 + STD_GRIDS[1:])
    if cfg["grid"] in ("LagrangeGrid2", "LagrangeGrid3", "BSplineGrid3"):
        cfg["boundary"] = True          # the hierarchical local grids assert boundary points
    if cfg["grid"] != "TrapezoidalGrid":
        # high-order families: keep the component grids small (Leja optimises its points, Lagrange / B-spline hierarchise)
        cfg["dim"] = min(cfg["dim"], 3)
        cfg["a"], cfg["b"] = cfg["a"][:cfg["dim"]], cfg["b"][:cfg["dim"]]
        if "calls" in cfg:
            cfg["calls"] = [[lo, min(hi, lo + 2, 4)] for lo, hi in ([min(c[0], 2), c[1]] for c in cfg["calls"])]
            cfg["calls"] = [[lo, max(lo, hi)] for lo, hi in cfg["calls"]]


def make_std_grid(cfg):
    import sparseSpACE.Grid as G
    a, b = np.array(cfg["a"], dtype=float), np.array(cfg["b"], dtype=float)
    name = cfg.get("grid", "TrapezoidalGrid")
    if name == "GaussLegendreGrid":
        return G.GaussLegendreGrid(a=a, b=b)
    if name in ("LagrangeGrid2", "LagrangeGrid3"):
        return G.LagrangeGrid(a=a, b=b, boundary=True, p=int(name[-1]))
    if name == "BSplineGrid3":
        return G.BSplineGrid(a=a, b=b, boundary=True, p=3)
    return getattr(G, name)(a=a, b=b, boundary=cfg["boundary"])


def gen_dimadaptive_cfg(r, tier):
    dim = r.choice([2, 2, 3])
    a = [r.choice(A_CHOICES) for _ in range(dim)]
    cfg = {"strategy": "dim_adaptive", "dim": dim, "a": a, "b": [a[d] + r.choice(W_CHOICES) for d in range(dim)],
           "boundary": r.random() < 0.7, "max_points": r.choice([10, 30, 60, 120, 250] if dim == 2 else [30, 80, 200]),
           "nnoise": r.choice([1, 2]), "p_zero": 0.0, "second_call": r.random() < 0.4}   # zero surpluses everywhere make the driver spin without progress (caller's contract)
    _draw_grid(r, cfg)
    cfg["levels"] = [r.choice([1, 1, 2]), 2]        # perform_combi asserts maxv == 2
    if cfg["grid"] == "LejaGrid":
        cfg["grid"] = "ClenshawCurtisGrid"          # Leja point optimisation: ~20 s per dimension-adaptive run
    if cfg["grid"] != "TrapezoidalGrid":
        cfg["max_points"] = min(cfg["max_points"], 120)
    return cfg


def _fresh_component(cfg, f, lv):
    from simcore.env import SimFunction
    a, b = np.array(cfg["a"], dtype=float), np.array(cfg["b"], dtype=float)
    g = make_std_grid(cfg)
    f2 = SimFunction(f.key, nnoise=f.nnoise, offset=f.offset)
    v = np.asarray(g.integrate(f2, [int(x) for x in lv], a, b), dtype=float)
    g.setCurrentArea(a, b, [int(x) for x in lv])
    _, W = g.get_points_and_weights()
    return v, float(sum(abs(w) for w in W)) * (2.0 + abs(f.offset))


def _compare(ctx, oracle, sig, got, want, S, n, msg):
    tol = 64 * EPS * max(n, 4) * max(S, 1e-300) * 8
    if not np.all(np.abs(np.asarray(got, dtype=float) - np.asarray(want, dtype=float)) <= tol):
        ctx.violate(oracle, sig, "%s: got %s, expected %s (tol %.2e)" % (msg, np.asarray(got).tolist(), np.asarray(want).tolist(), tol))
    ctx.ok(oracle)


def run_standard(cfg, rk, ctx):
    from sparseSpACE.StandardCombi import StandardCombi
    from sparseSpACE.GridOperation import Integration
    from sparseSpACE.Grid import TrapezoidalGrid
    from simcore.env import SimFunction
    a, b = np.array(cfg["a"], dtype=float), np.array(cfg["b"], dtype=float)
    f = SimFunction(rk, nnoise=cfg["nnoise"])
    op = Integration(f=f, grid=make_std_grid(cfg), dim=cfg["dim"], print_level=100, log_level=100)
    sc = StandardCombi(a, b, operation=op, print_level=100, log_level=100)
    sig = {"strategy": "standard", "grid": cfg.get("grid", "TrapezoidalGrid")}
    ctx.exc_sig = dict(sig)
    for k, (lmin, lmax) in enumerate(cfg["calls"]):
        scheme, err, res = sc.perform_operation(lmin, lmax)
        ctx.step()
        ctx.state(("standard", k, lmin, lmax, cfg["dim"]))
        ctx.ev("standard_call", k, lmin, lmax, [float(x).hex() for x in res])
        want = np.zeros(f.output_length()); S = 0.0
        for cg in scheme:
            v, s = _fresh_component(cfg, f, cg.levelvector)
            want += cg.coefficient * v; S += abs(cg.coefficient) * s
        _compare(ctx, "reported_equals_combination", sig, res, want, S, len(scheme), "call %d (lmin %d, lmax %d)" % (k, lmin, lmax))
        if cfg.get("grid", "TrapezoidalGrid") in NODAL:
            P, W = sc.get_points_and_weights()
            acc = np.zeros(f.output_length())
            for p, w in zip(P, W):
                acc += w * np.asarray(f.peek(tuple(float(x) for x in p)), dtype=float)
            _compare(ctx, "points_and_weights_reproduce_integral", sig, acc, res, S, len(scheme), "call %d: sum w f over get_points_and_weights()" % k)
        ctx.probe("standard_call_checked")
        if cfg.get("grid", "TrapezoidalGrid") != "TrapezoidalGrid":
            ctx.probe("standard_high_order_grid")


def run_dimadaptive(cfg, rk, ctx):
    from sparseSpACE.DimAdaptiveCombi import DimAdaptiveCombi
    from sparseSpACE.GridOperation import Integration
    from sparseSpACE.Grid import TrapezoidalGrid
    from simcore.env import SimFunction
    a, b = np.array(cfg["a"], dtype=float), np.array(cfg["b"], dtype=float)
    f = SimFunction(rk, nnoise=cfg["nnoise"], offset=3.0)     # offset keeps the relative error defined
    ref = np.full(f.output_length(), 1234.5)                  # unreachable reference: the point limit decides the stop
    op = Integration(f=f, grid=make_std_grid(cfg), dim=cfg["dim"], reference_solution=ref,
                     print_level=100, log_level=100)
    da = DimAdaptiveCombi(a, b, op)
    ctx.exc_sig = {"strategy": "dim_adaptive", "grid": cfg.get("grid", "TrapezoidalGrid")}
    lmin, lmax = cfg.get("levels", [1, 2])
    asked = []

    def surplus(component_grid, integral_dict):     # the environment's answer: which index is refined next
        lv = tuple(int(x) for x in component_grid.levelvector)
        asked.append(lv)
        return 1e-6 + H(rk, "surplus", lv)
    da.calculate_surplus = surplus
    limits = [cfg["max_points"]] + ([cfg["max_points"] * 2] if cfg.get("second_call") else [])
    for call, mp in enumerate(limits):
        # a second perform_combi on the same object (history of calls: index sets and caches of the first call must not leak)
        scheme, err, res, errors, num_points = da.perform_combi(lmin, lmax, 1e-12, max_number_of_points=mp)
        _judge_dimadaptive(cfg, rk, ctx, f, scheme, res, errors, call)


def _judge_dimadaptive(cfg, rk, ctx, f, scheme, res, errors, call):
    ctx.step(len(errors) + 1)
    ctx.state(("dim_adaptive", sorted((tuple(int(x) for x in cg.levelvector), cg.coefficient) for cg in scheme)))
    ctx.ev("dim_adaptive", len(errors), [float(x).hex() for x in np.atleast_1d(res)])
    want = np.zeros(f.output_length()); S = 0.0
    for cg in scheme:
        v, s = _fresh_component(cfg, f, cg.levelvector)
        want += cg.coefficient * v; S += abs(cg.coefficient) * s
    _compare(ctx, "reported_equals_combination", {"strategy": "dim_adaptive", "call": call, "grid": cfg.get("grid", "TrapezoidalGrid")}, res, want, S, len(scheme),
             "perform_combi call %d: after %d refinement steps, scheme of %d grids" % (call, len(errors), len(scheme)))
    if len(errors) > 0:
        ctx.probe("dim_adaptive_refined")
