"""de_reuse_sim (C17) - density estimation under the dimension-wise strategy: twin runs on the same data and the same
refinement schedule with the caches on / off, and with the size threshold moved so that the small-grid and the
large-grid implementations run on the same grids (guarded hook SPARSESPACE_VERIF_DE_THRESHOLD).

Real code: DensityEstimation (matrix entries, right-hand side, caches, interpolation), SpatiallyAdaptiveSingleDimensions2,
refinement containers, CombiScheme. Stubs: error-estimator answers (keyed), clocks; data is synthetic and seeded.
"""
import copy, os
import numpy as np
from simcore.runner import Check
from simcore.ctx import Excluded
from simcore.seeds import stream, H
from simcore import seams
from engines import dimwise_sim as DS


def make_data(seed, n, dim, on_lines, on_boundary):
    rng = np.random.RandomState(seed % (2 ** 31))
    X = np.vstack([rng.normal(0.3, 0.1, (n // 2, dim)), rng.normal(0.7, 0.12, (n - n // 2, dim))]).clip(0.01, 0.99)
    if on_lines:
        k = min(5, n)
        X[:k] = np.round(X[:k] * 8) / 8
    if on_boundary and n > 6:
        X[5, 0] = 0.0
        X[6, -1] = 1.0
    return X


class DESim(DS.DimwiseSim):
    strategy = "dimension_wise_density_estimation"

    def __init__(self, cfg, rk, ctx, reuse, threshold=None):
        super().__init__(cfg, rk, ctx, [])
        self.reuse = reuse
        self.threshold = threshold
        self.snaps = []
        self.record = True

    def build(self):
        from sparseSpACE.spatiallyAdaptiveSingleDimension2 import SpatiallyAdaptiveSingleDimensions2
        from sparseSpACE.GridOperation import DensityEstimation
        from sparseSpACE.Grid import GlobalTrapezoidalGrid
        from simcore.env import SimErrorCalculator
        c = self.cfg
        DS.install_observers()
        dim = c["dim"]
        a, b = np.zeros(dim), np.ones(dim)
        X = make_data(c["data_seed"], c["n"], dim, c["lines"], c["on_boundary"] and c["boundary"])
        if not c.get("pre_scaled", True):
            X = X * 3.0 - 1.0       # outside the unit cube: the operation scales the data itself
        classes = None
        if c["classes"]:
            classes = np.array([1.0 if H(self.rk, "cls", i) < 0.5 else -1.0 for i in range(len(X))])
        grid = GlobalTrapezoidalGrid(a=a, b=b, boundary=c["boundary"])
        self.op = DensityEstimation(X, dim, grid=grid, masslumping=c["masslumping"], lambd=c["lambd"], classes=classes,
                                    reuse_old_values=self.reuse, numeric_calculation=c["numeric"], print_output=False, pre_scaled_data=c.get("pre_scaled", True),
                                    print_level=100, log_level=100)
        self.sa = SpatiallyAdaptiveSingleDimensions2(a, b, operation=self.op, margin=c["margin"], rebalancing=c["rebalancing"],
                                                     version=c["version"], print_level=100, log_level=100)
        self.err = SimErrorCalculator(self.rk, p_zero=c["p_zero"], p_tie=c["p_tie"], mode="mix", use_epoch=c.get("use_epoch", True))
        self.P = [tuple(0.02 + 0.96 * H(self.rk, "dp", k, d) for d in range(dim)) for k in range(6)]
        return self

    def too_big(self):
        return max(len(o) for o in self.containers()) > self.cfg.get("max_intervals", 24)

    def after_evaluate(self, sa, ret):
        if not self.record:
            return super().after_evaluate(sa, ret)
        s = {k: np.array(v, dtype=float).copy() for k, v in self.op.surpluses.items()}
        sch = sorted((tuple(int(x) for x in cg.levelvector), float(cg.coefficient)) for cg in sa.scheme)
        vals = np.asarray(sa(self.P), dtype=float).copy()
        npts = max((len(v) for v in s.values()), default=0)
        self.snaps.append((sch, s, vals, npts))
        super().after_evaluate(sa, ret)

    def run(self):
        env_old = {k: os.environ.get(k) for k in ("SPARSESPACE_VERIF", "SPARSESPACE_VERIF_DE_THRESHOLD")}
        try:
            if self.threshold is not None:
                os.environ["SPARSESPACE_VERIF"] = "1"
                os.environ["SPARSESPACE_VERIF_DE_THRESHOLD"] = str(self.threshold)
            else:
                os.environ.pop("SPARSESPACE_VERIF", None)
                os.environ.pop("SPARSESPACE_VERIF_DE_THRESHOLD", None)
            seams.seed_global_prngs(self.rk)      # both twins see the same global PRNG stream
            try:
                self.perform(tol=-1.0, max_evaluations=None, stop_after=self.cfg["evals"])
            except DS.StopRun:
                pass
        finally:
            for k, v in env_old.items():
                if v is None:
                    os.environ.pop(k, None)
                else:
                    os.environ[k] = v
        return self.snaps


def run_standard(c, rk, reuse, threshold):
    """density estimation on uniform component grids: one StandardCombi object answering a history of perform_operation calls
    with changing levels (the 'refinement history' of the non-adaptive driver); same snapshot format as DESim.run"""
    from sparseSpACE.GridOperation import DensityEstimation
    from sparseSpACE.StandardCombi import StandardCombi
    from sparseSpACE.Grid import TrapezoidalGrid
    dim = c["dim"]
    a, b = np.zeros(dim), np.ones(dim)
    X = make_data(c["data_seed"], c["n"], dim, c["lines"], c["on_boundary"] and c["boundary"])
    if not c.get("pre_scaled", True):
        X = X * 3.0 - 1.0
    classes = np.array([1.0 if H(rk, "cls", i) < 0.5 else -1.0 for i in range(len(X))]) if c["classes"] else None
    env_old = {k: os.environ.get(k) for k in ("SPARSESPACE_VERIF", "SPARSESPACE_VERIF_DE_THRESHOLD")}
    snaps = []
    try:
        if threshold is not None:
            os.environ["SPARSESPACE_VERIF"] = "1"
            os.environ["SPARSESPACE_VERIF_DE_THRESHOLD"] = str(threshold)
        else:
            os.environ.pop("SPARSESPACE_VERIF", None)
            os.environ.pop("SPARSESPACE_VERIF_DE_THRESHOLD", None)
        seams.seed_global_prngs(rk)
        op = DensityEstimation(X, dim, grid=TrapezoidalGrid(a=a, b=b, boundary=c["boundary"]), masslumping=c["masslumping"], lambd=c["lambd"], classes=classes,
                               reuse_old_values=reuse, numeric_calculation=False, print_output=False, pre_scaled_data=c.get("pre_scaled", True),
                               print_level=100, log_level=100)
        sc = StandardCombi(a, b, operation=op, print_level=100, log_level=100)
        P = [tuple(0.02 + 0.96 * H(rk, "dp", k, d) for d in range(dim)) for k in range(6)]
        for lmin, lmax in c["calls"]:
            sc.perform_operation(lmin, lmax)
            su = {k: np.array(v, dtype=float).copy() for k, v in op.surpluses.items()}
            sch = sorted((tuple(int(x) for x in cg.levelvector), float(cg.coefficient)) for cg in sc.scheme)
            vals = np.asarray(sc(P), dtype=float).copy()
            snaps.append((sch, su, vals, max((len(v) for v in su.values()), default=0)))
    finally:
        for k, v in env_old.items():
            if v is None:
                os.environ.pop(k, None)
            else:
                os.environ[k] = v
    return snaps


class C17(Check):
    pid = "C17"
    runs = {"quick": 700, "thorough": 8000}
    budget_s = {"quick": 100.0, "thorough": 1000.0}
    block = 4
    run_timeout_s = 400.0
    min_runs = 10
    real = ["GridOperation.DensityEstimation (R matrix entries analytic / numeric, right-hand side in three code paths, caches old_R / old_B / old_grid_coord / data bins, interpolation in its small-grid and large-grid implementations)",
            "SpatiallyAdaptiveSingleDimensions2", "refinement containers", "CombiScheme", "StandardCombi with DensityEstimation on uniform grids (a fifth of the runs)"]
    stub = ["error-estimator answers (keyed draws, identical for all twins)", "clocks", "synthetic seeded data (clusters, samples on grid lines / on the boundary)",
            "size threshold moved through the guarded hook SPARSESPACE_VERIF_DE_THRESHOLD (the only hook in /repo)"]
    rule = ("schedule = data set (10-80 samples, 2-3 dims, on grid lines / boundary, optional class labels), lambda, mass lumping, analytic "
            "or (rarely, 2-D only) numeric entries, strategy options and benefit answers for 1-4 (30 %: up to 7) evaluations of the real dimension-wise loop. "
            "Each schedule is executed as twins: reuse off (reference), reuse on; and with the size threshold moved: small-grid "
            "implementation everywhere vs large-grid implementation everywhere (reuse off), plus reuse on with the threshold at 1 (right-hand "
            "side reuse path on the explored grids), and reuse on with a threshold inside the range of grid sizes of the history (learnt from the reuse-off twin as the size crossed most often), so that grids cross it in both directions. After every evaluation scheme, surpluses per component grid and interpolated densities at "
            "seeded points are compared. A state is the refined structure with the data/option class; distinct_nontrivial counts distinct "
            "refined structures on which the twins were compared")
    expected_probes = ["twin_compared", "grid_ge_default_threshold", "rebalancing", "new_lmax", "standard_combi_history", "threshold_inside_the_size_range"]
    assumptions = ["analytic runs are compared with a bound of 1e-8 relative to the largest surplus (the linear solves amplify rounding), numeric-entry runs with 2e-2 (calibrated: nquad on the kinked hat products is accurate to about 2e-3)",
                   "all twins receive identical environment answers and the same global PRNG stream"]
    excluded_configs = ["numeric matrix entries in 3-D or beyond 30 grid points (scipy.nquad per entry: minutes per run)",
                        "StandardCombi density estimation with boundary points (asserted unsupported by evaluate_levelvec)"]

    def setup(self):
        import sparseSpACE.spatiallyAdaptiveSingleDimension2, sparseSpACE.GridOperation  # noqa
        import simcore.env  # noqa
        DS.install_observers()

    def gen(self, rk, tier, idx):
        r = stream(rk, "cfg")
        dim = r.choice([2, 2, 2, 3])
        numeric = dim == 2 and r.random() < 0.04
        cfg = {"dim": dim, "n": r.choice([10, 40, 80]), "data_seed": r.randrange(10 ** 6), "lines": r.random() < 0.5,
               "on_boundary": r.random() < 0.3, "classes": r.random() < 0.4, "boundary": r.random() < 0.3,
               "masslumping": r.random() < 0.3, "lambd": r.choice([0.0, 0.01, 0.1]), "numeric": numeric,
               "margin": r.choice([0.3, 0.5, 0.9]), "rebalancing": r.random() < 0.3, "version": 6,
               "p_zero": r.choice([0.0, 0.3, 0.6]), "p_tie": r.choice([0.0, 0.2]),
               "lmin": 1, "lmax": 2 if numeric else r.choice([2, 2, 3]), "evals": r.randint(1, 2 if numeric else (4 if r.random() < 0.7 else 7)),
               "max_intervals": 6 if numeric else (24 if tier == "quick" else 40), "recalc": None, "clock_jumps": False,
               "big": (not numeric) and r.random() < (0.03 if tier == "quick" else 0.1), "pre_scaled": r.random() < 0.7}
        if cfg["big"]:       # reach component grids beyond the default threshold of 200 points without the hook
            cfg.update(dim=2, lmax=5, evals=2, masslumping=True, n=40)
        s2 = stream(rk, "standard")
        if not numeric and not cfg["big"] and s2.random() < 0.2:
            # uniform component grids under the non-adaptive driver: one object, several perform_operation calls with changing levels
            # (its own small-grid implementations: symmetric completely vectorised hats for interpolation, calculate_B)
            top = 4 if dim == 2 else 3
            calls = []
            for _ in range(s2.randint(1, 3)):
                lmin = s2.choice([1, 1, 2])
                calls.append([lmin, min(top, lmin + s2.choice([0, 1, 1, 2]))])
            cfg.update(standard=True, calls=calls, boundary=False)      # the non-adaptive density estimation asserts boundary points off
        return {"config": cfg, "ops": []}

    def simplify(self, s):
        c = s["config"]
        for key, v in (("classes", False), ("lines", False), ("on_boundary", False), ("rebalancing", False), ("masslumping", False),
                       ("lambd", 0.0), ("n", 10), ("p_tie", 0.0), ("boundary", False), ("lmax", 2), ("dim", 2), ("big", False)):
            if c[key] != v:
                n = copy.deepcopy(s); n["config"][key] = v; yield n
        if c["evals"] > 1:
            n = copy.deepcopy(s); n["config"]["evals"] -= 1; yield n

    def compare(self, ctx, sig, A, B, oracle, what, tol, rhs_threshold=None):
        """rhs_threshold: grid size from which the right-hand-side reuse path is taken in run B (None: not a reuse run)"""
        sig = dict(sig)
        if rhs_threshold is not None:
            # the path copies old right-hand-side values from the second evaluation on, for component grids of at least that size
            sig["rhs_reuse_path_active"] = any(sn[3] >= rhs_threshold for sn in B[1:])
        if len(A) != len(B):
            ctx.violate(oracle, sig, "%s: %d vs %d evaluations" % (what, len(A), len(B)))
        hits0 = sum(ctx.known_hits.values())
        for i, ((sch0, su0, v0, _), (sch1, su1, v1, _)) in enumerate(zip(A, B)):
            if sum(ctx.known_hits.values()) > hits0:
                return          # a listed finding matched: the rest of this twin comparison is its consequence
            if sch0 != sch1:
                ctx.violate(oracle, dict(sig, part="scheme"), "%s: evaluation %d: combination schemes differ: %s vs %s" % (what, i, sch0, sch1))
            if set(su0) != set(su1):
                ctx.violate(oracle, dict(sig, part="surpluses"), "%s: evaluation %d: different component grids carry surpluses" % (what, i))
            scale = 1.0 + max((float(np.max(np.abs(x))) for x in su0.values() if x.size), default=0.0)
            for k in sorted(su0):
                if su0[k].shape != su1[k].shape or not np.all(np.abs(su0[k] - su1[k]) <= tol * scale):
                    d = float(np.max(np.abs(su0[k] - su1[k]))) if su0[k].shape == su1[k].shape else float("nan")
                    ctx.violate(oracle, dict(sig, part="surpluses"), "%s: evaluation %d, component grid %s: surpluses differ by %.3e (tol %.1e, scale %.2e, %d points)" % (
                        what, i, k, d, tol * scale, scale, su0[k].size))
            if v0.shape != v1.shape or not np.all(np.abs(v0 - v1) <= tol * (1.0 + float(np.max(np.abs(v0))))):
                ctx.violate(oracle, dict(sig, part="densities"), "%s: evaluation %d: interpolated densities differ by %.3e" % (what, i, float(np.max(np.abs(v0 - v1)))))
        ctx.ok(oracle, len(A))

    def execute(self, sched, ctx):
        c, rk = sched["config"], sched["rk"]
        sig = {"numeric": c["numeric"], "masslumping": c["masslumping"], "boundary": c["boundary"], "classes": c["classes"]}
        ctx.exc_sig = dict(sig)
        # numeric entries: scipy.nquad on the kinked hat products is itself only accurate to about 2e-3 relative (calibrated against
        # the analytic entries on the unchanged tree), so cached and recomputed entries legitimately differ at that level
        tol = 2e-2 if c["numeric"] else 1e-8

        def run(reuse, threshold):
            if c.get("standard"):
                ctx.step(len(c["calls"]))
                return None, run_standard(c, rk, reuse, threshold)
            sim = DESim(c, rk, ctx, reuse, threshold).build()
            snaps = sim.run()
            return sim, snaps
        if c.get("standard"):
            sig["driver"] = "standard"
            ctx.exc_sig = dict(sig)
            ctx.probe("standard_combi_history")
        s0, A = run(False, None)
        ctx.state(s0.structure_key() if s0 is not None else ("standard", c["dim"], c["boundary"], c["calls"]))
        if any(sn[3] >= 200 for sn in A):
            ctx.probe("grid_ge_default_threshold")
        _, B = run(True, None)
        ctx.fault("skip_fast_path")
        self.compare(ctx, sig, A, B, "reuse_on_equals_reuse_off", "reuse on vs off", tol, rhs_threshold=200)
        ctx.probe("twin_compared")
        if not c["big"]:
            _, C = run(False, 10 ** 9)
            _, D = run(False, 1)
            ctx.fault("threshold_moved")
            self.compare(ctx, sig, C, D, "small_grid_equals_large_grid_implementation", "small-grid vs large-grid implementation", tol)
            self.compare(ctx, sig, A, C, "small_grid_equals_large_grid_implementation", "default threshold vs small-grid implementation", tol)
            _, E = run(True, 1)
            self.compare(ctx, dict(sig, threshold="moved"), A, E, "reuse_on_equals_reuse_off", "reuse on with the right-hand-side reuse path forced (threshold 1) vs reuse off", tol, rhs_threshold=1)
            if not c.get("standard"):
                # a threshold in the middle of the grid sizes of this history: component grids cross it in both directions from step
                # to step (a grid coarsened after an lmax raise drops below it, grows back later), so entries of the caches are
                # written by one implementation and read by the other
                from simcore.seeds import H
                mid = (6, 10, 16, 24, 40)[int(H(rk, "mid_threshold") * 5) % 5]
                # learnt from the reuse-off execution of the same history: the threshold that the sizes of the component grids
                # (per level vector, from evaluation to evaluation) cross most often, downward crossings counting double
                seqs = {}
                for (_, su, _, _) in A:
                    for k2, v2 in su.items():
                        seqs.setdefault(k2, []).append(int(v2.size))
                best = (0, mid)
                for T in sorted(set(x for q in seqs.values() for x in q)):
                    sc = 0
                    for q in seqs.values():
                        side = [x >= T for x in q]
                        sc += sum((2 if (u and not v) else 1) for u, v in zip(side, side[1:]) if u != v)
                    if sc > best[0] or (sc == best[0] and sc > 0 and H(rk, "mid_tie", T) < 0.5):
                        best = (sc, T)
                mid = best[1]
                if best[0] > 0:
                    ctx.probe("grids_cross_the_threshold")
                _, F = run(True, mid)
                ctx.probe("threshold_inside_the_size_range")
                self.compare(ctx, dict(sig, threshold="inside"), A, F, "reuse_on_equals_reuse_off", "reuse on with the threshold at %d points vs reuse off" % mid, tol, rhs_threshold=mid)


CHECKS = {"C17": C17}
