"""Checks served by dimwise_sim: C06 (structure), C03 (combination), later C04 C05 C13 C14 C15."""
import copy
from simcore.runner import Check
from simcore.ctx import Excluded
from simcore.seeds import stream
from engines import dimwise_sim as DS

REAL = ["SpatiallyAdaptiveSingleDimensions2", "SpatiallyAdaptivBase (driver loop, refine)", "MetaRefinementContainer",
        "RefinementContainer", "RefinementObjectSingleDimension", "CombiScheme", "Integration", "GlobalTrapezoidalGrid",
        "Function (call/cache paths)", "Interpolation"]
STUB = ["integrand values (SimFunction.eval: keyed hash)", "error estimator answers (SimErrorCalculator: keyed class draws)",
        "clocks (SimClock)", "stdout"]


class DimwiseCheck(Check):
    block = 8
    run_timeout_s = 120.0
    real, stub = REAL, STUB
    excluded_configs = ["local grid families in extend-split other than Trapezoidal, Lagrange(p=2), Clenshaw-Curtis, Gauss-Legendre, Simpson: BSplineGrid asserts in this environment, LejaGrid takes minutes per run",
                        "global grid families in the dimension-wise strategy other than Trapezoidal, Lagrange(p=2), B-spline(p=3), HighOrder: Simpson, Romberg, balanced Romberg and the modified Lagrange basis do not run in the pinned environment without extra options",
                        "lmax == 1 (initialize_refinement asserts lmax > 1)",
                        "coarsening versions 0, 1, 4, 5 (not among the versions the properties name; 4/5 print and assert internally)",
                        "grid families other than GlobalTrapezoidalGrid for the structure/combination monitors"]

    def setup(self):
        import numpy  # noqa
        import sparseSpACE.spatiallyAdaptiveSingleDimension2  # noqa
        import simcore.env  # noqa
        DS.install_observers()

    def monitors(self):
        raise NotImplementedError

    def gen(self, rk, tier, idx):
        r = stream(rk, "cfg")
        cfg = DS.gen_cfg(r, tier)
        add_two_legs(cfg, stream(rk, "legs"))
        return {"config": cfg, "ops": []}

    def simplify(self, s):
        for c in DS.simplify_cfg(s):
            yield c
        if s["config"].get("two_legs"):
            n = copy.deepcopy(s); n["config"]["two_legs"] = None; yield n

    def execute(self, sched, ctx):
        sim = DS.DimwiseSim(sched["config"], sched["rk"], ctx, self.monitors())
        sim.build()
        run_history(sim, sched["config"], ctx)


def add_two_legs(cfg, r, p=0.25):
    if cfg.get("cluster"):
        cfg["two_legs"] = None      # the cluster wanders with the evaluation counter
        return
    """a share of the histories is interrupted by the documented stop mechanism (a point limit) and continued - through
    continue_adaptive_refinement or through a new driver call that is handed the returned container; the clauses hold at the
    return of the first call, during the first evaluation of the continued run and afterwards"""
    cfg["two_legs"] = {"limit": r.choice([0, 5, 12, 25, 50, 100]), "route": r.choice(["continue", "restart"])} if r.random() < p else None
    if cfg["two_legs"]:
        cfg["use_epoch"] = False       # answers keyed by the interval alone: a continuation re-asks before it decides


def run_history(sim, cfg, ctx, **build_kw):
    legs = cfg.get("two_legs")
    try:
        if not legs:
            sim.perform(tol=-1.0, max_evaluations=None, stop_after=cfg["evals"])
            return
        ret = sim.perform(tol=-1.0, max_evaluations=legs["limit"], stop_after=max(cfg["evals"], 1) + 8)
        ctx.fault("stop@k")
        for m in sim.monitors:
            m.on_return(sim, ret)
        more = sim.n_eval + max(1, cfg["evals"])
        if legs["route"] == "continue":
            ctx.probe("continued")
            ret = sim.cont(tol=-1.0, max_evaluations=None, stop_after=more)
        else:
            ctx.probe("container_restart"); ctx.fault("container_restart")
            ret = sim.perform(tol=-1.0, max_evaluations=None, stop_after=more, refinement_container=ret[0])
    except DS.StopRun:
        pass


class C06(DimwiseCheck):
    pid = "C06"
    runs = {"quick": 2500, "thorough": 30000}
    budget_s = {"quick": 70.0, "thorough": 700.0}
    rule = ("schedule = configuration (dim 1-4, lmin, lmax, coarsening version, rebalancing, safety factor, margin, box) plus the "
            "environment's benefit answers per interval and evaluation (keyed draws: zero / tie at 1.0 / uniform / just below or just above "
            "the margin fraction of a tie; modes all-equal and all-zero; a per-run scale 1e-15 ... 1e7; families: long narrow histories "
            "with position-biased answers, sharply localised 'focus' drivers from start levels with lmax - lmin >= 2, boxes scaled by 1e-12 ... 1e6, drill histories of 40-52 bisections of one place, "
            "localised histories under rebalancing interrupted and continued through the container route); the real adaptive "
            "loop runs for 1-6 (long families: up to 12) evaluations. A state is the list of intervals with point levels of "
            "all dimensions; distinct_nontrivial counts distinct states reached after a refinement step (differing from the initial grid)")
    expected_probes = ["rebalancing", "new_lmax", "split_at_coarsening_zero", "ties_at_margin", "single_split_step",
                       "split_everything_step", "all_benefits_zero"]
    assumptions = ["benefits are read from the refinement objects immediately before refine(); the split threshold is computed with the same "
                   "floating-point expression the statement gives (benefit >= margin * largest benefit)",
                   "midpoint check applies to the unweighted trapezoidal grid only"]

    def monitors(self):
        return [DS.StructureMonitor()]

    def gen(self, rk, tier, idx):
        sched = super().gen(rk, tier, idx)
        cfg = sched["config"]
        x = stream(rk, "extremes")
        u = x.random()
        if u < 0.06 and not cfg.get("cluster"):
            # boxes of very small or very large extent (anchored at the scaled corner, so the relative resolution is that of the
            # unscaled box): the tiling clauses are about exact end points, whatever the scale
            sc = x.choice([1e-12, 1e-12, 1e-9, 1e-6, 1e6])
            cfg["a"] = [v * sc for v in cfg["a"]]
            cfg["b"] = [v * sc for v in cfg["b"]]
            cfg["box_scale"] = sc
            cfg["jump"] = False
        elif u < 0.09 and not cfg.get("cluster"):
            # drill: the interval at one place of each dimension is bisected step after step until it approaches the resolution of
            # the floating-point numbers (the library refuses by assertion around depth 53; histories stop short of it or end there)
            dim = x.choice([1, 2, 2])
            cfg.update(dim=dim, lmin=1, lmax=2, margin=x.choice([0.9, 1.0]), mode="mix", p_zero=0.0, p_tie=0.0, p_near=0.0, scale=1.0,
                       rebalancing=x.random() < 0.5, evals=x.randint(40, 52), max_intervals=10 ** 4, max_points=10 ** 6, drill=True, recalc=None,
                       bias=["focus", [x.choice([0.0, 0.5, 1.0 - 2.0 ** -53, 0.3]) for _ in range(dim)], 0.0], focus=True, two_legs=None, use_epoch=False)
            cfg["a"] = [0.0] * dim
            cfg["b"] = [1.0] * dim
            cfg.pop("long_narrow", None)
        if cfg.get("rebalancing") and (cfg.get("focus") or cfg.get("long_narrow")) and not cfg.get("drill") and not cfg.get("cluster"):
            # localised histories under rebalancing leave trees that are shallower than the dimension's maximum level (a rotation
            # lifted every deepest leaf): half of them are interrupted after several steps and continued, mostly through the
            # route that re-initialises from the returned container
            if cfg.get("focus") and isinstance(cfg.get("bias"), list) and cfg["bias"][0] == "focus" and x.random() < 0.5:
                cfg["bias"][1] = [x.choice([0.37, 0.71, 0.37, 0.2, 0.63]) for _ in cfg["bias"][1]]
                cfg["evals"] = max(cfg["evals"], x.randint(6, 12))
            if x.random() < 0.5:
                cfg["two_legs"] = {"limit": x.choice([12, 25, 50, 100]), "route": x.choice(["restart", "restart", "continue"])}
                cfg["use_epoch"] = False
        return sched


class C03(DimwiseCheck):
    pid = "C03"
    runs = {"quick": 2000, "thorough": 25000}
    budget_s = {"quick": 100.0, "thorough": 900.0}
    rule = ("schedule as for C06 (dimension-wise strategy, versions 2/3/6/7/8, rebalancing on/off, boundary on/off, arbitrary benefit "
            "answers); after every evaluation every component grid of the current scheme is inspected through the public observation "
            "points and the combined interpolant is compared with an integrand that is arbitrary per point (keyed hash); in a tenth of the runs another dimension-wise object is run between each evaluation and these queries (foreign activity). A state is the "
            "interval/level structure; distinct_nontrivial counts distinct refined structures on which the combination was checked")
    expected_probes = ["rebalancing", "new_lmax", "foreign_turn_before_the_queries"]

    def gen(self, rk, tier, idx):
        r = stream(rk, "cfg")
        cfg = DS.gen_cfg(r, tier, cluster_p=0.25)
        add_two_legs(cfg, stream(rk, "legs"))
        if cfg.get("cluster"):
            cfg["two_legs"] = None      # the cluster wanders with the evaluation counter
        s = {"config": cfg, "ops": []}
        c = s["config"]
        if c["lmax"] <= c["lmin"]:      # the statement quantifies over lmin < lmax start configurations
            c["lmax"] = c["lmin"] + 1
        return s

    def monitors(self):
        return [ForeignTurn(), DS.CombinationMonitor()]


class ForeignTurn(DS.Monitor):
    """foreign activity between an evaluation of the object under observation and the queries that inspect it: in a tenth of the
    runs another dimension-wise object (own box, levels, version) is built and run for a few steps at every evaluation, before
    the combination monitor asks its questions. The object under observation did not change; what it answers must not either."""

    def on_eval(self, sim):
        from simcore.seeds import H
        if H(sim.rk, "foreign_turns") >= 0.1:
            return
        r = stream(sim.rk, "foreign_turn%d" % sim.n_eval)
        fcfg = DS.gen_cfg(r, "quick", dims=(1, 2, 2, 3), focus_p=0.0, cluster_p=0.0)
        fcfg.update(strategy="dimension_wise", use_epoch=False, clock_jumps=False, max_intervals=10 ** 6, max_points=10 ** 6, estimator="keyed")
        ctx = sim.ctx
        saved_sig, saved_cur = getattr(ctx, "exc_sig", None), DS._Obs.cur
        try:
            fsim = DS.DimwiseSim(fcfg, sim.rk + "|foreign%d" % sim.n_eval, ctx, [])
            fsim.eval_cap = 4
            fsim.build()
            fsim.perform(tol=-1.0, max_evaluations=r.choice([5, 15, 40]))
        except (DS.StopRun, Excluded):
            pass
        except Exception as e:
            if getattr(e, "harness", False):
                raise
            ctx.probe("foreign_activity_raised")
        finally:
            ctx.exc_sig = saved_sig
            DS._Obs.cur = saved_cur
        ctx.fault("foreign_activity"); ctx.probe("foreign_turn_before_the_queries")


CHECKS = {"C06": C06, "C03": C03}


class C04(DimwiseCheck):
    pid = "C04"
    runs = {"quick": 1800, "thorough": 20000}
    budget_s = {"quick": 80.0, "thorough": 800.0}
    rule = ("schedule = strategy configuration + benefit answers (as C06); the integrand carries exactness probes as extra output "
            "components (basis functions and a random combination of the initial (lmin,lmax) sparse-grid space; affine functions with the "
            "modified basis) that never steer refinement; after every evaluation the probe components of the reported result and of the "
            "combined interpolant at seeded points are compared with the analytic values. distinct_nontrivial counts distinct refined "
            "structures on which exactness was checked")
    expected_probes = ["rebalancing", "new_lmax"]
    real = REAL + ["SpatiallyAdaptiveExtendScheme", "RefinementObjectExtendSplit", "SpatiallyAdaptiveCellScheme", "RefinementObjectCell", "TrapezoidalGrid"]

    def gen(self, rk, tier, idx):
        r = stream(rk, "cfg")
        strategy = r.choice(["dimension_wise"] * 6 + ["extend_split"] * 3 + ["cell"])
        if strategy != "dimension_wise":
            from engines import extendsplit_sim as ES
            cfg = ES.gen_cfg(r, tier) if strategy == "extend_split" else ES.gen_cell_cfg(r, tier)
            cfg["strategy"] = strategy
            cfg["boundary"] = True      # multilinear functions do not vanish on the boundary
            if strategy == "extend_split" and cfg["lmin"] == cfg["lmax"]:
                cfg["automatic"] = False    # this combination raises inside the benefit estimate (known finding of C07)
            g = stream(rk, "grid")
            if strategy == "extend_split" and g.random() < 0.25:
                # the other local grid families that run in this strategy here integrate multilinear functions exactly as well
                cfg["grid"] = g.choice(ES.LOCAL_GRIDS[1:] + ["MixedGrid", "MixedGrid"])
                cfg["single_dim"] = False
                if cfg["lmin"] < cfg["lmax"] and g.random() < 0.5:
                    cfg["automatic"] = True
                if cfg["grid"] == "MixedGrid":
                    # 1-D families chosen per dimension, each exact for linear functions: with boundary points, or without them in
                    # the modified basis - so the boundary flags of the dimensions differ
                    m = stream(rk, "mixed")
                    cfg["mixed"] = []
                    for d in range(cfg["dim"]):
                        k = m.choice(["Trapezoidal", "Trapezoidal", "TrapezoidalMod", "TrapezoidalMod", "ClenshawCurtis", "Simpson"])
                        cfg["mixed"].append([k, k != "TrapezoidalMod"])
            p = stream(rk, "probes")
            cfg["probes"] = [["ml", [[round(p.uniform(-2, 2), 3), round(p.uniform(-2, 2), 3)] for _ in range(cfg["dim"])]] for _ in range(3)] + \
                            DS.linear_probes(p, cfg["dim"], 1)
            add_two_legs(cfg, stream(rk, "legs"))
            if cfg["two_legs"] and (strategy == "cell" or cfg.get("version") != 0 or cfg.get("automatic")):
                # the second continuation route evaluates every area again from scratch; where that is known to take another path
                # than the incremental bookkeeping (recorded under C14) only the documented continuation is driven
                cfg["two_legs"]["route"] = "continue"
            return {"config": cfg, "ops": []}
        cfg = DS.gen_cfg(r, tier, focus_p=0.3)
        cfg["strategy"] = strategy
        if r.random() < 0.15:
            cfg["boundary"] = False
            cfg["modified_basis"] = True
        p = stream(rk, "probes")
        if cfg["modified_basis"]:
            probes = DS.linear_probes(p, cfg["dim"], 3)
        else:
            # localised histories leave most of the initial grid untouched while maximum levels move: more of the initial space is carried
            probes = DS.initial_space_probes(p, cfg, 12 if cfg.get("focus") else 4)
        cfg["probes"] = probes
        add_two_legs(cfg, stream(rk, "legs"))
        return {"config": cfg, "ops": []}

    def monitors(self):
        return [DS.ExactnessMonitor()]

    def simplify(self, s):
        st = s["config"].get("strategy", "dimension_wise")
        if st == "dimension_wise":
            return DS.simplify_cfg(s)
        if st == "extend_split":
            from engines import extendsplit_sim as ES
            return (c for c in ES.simplify_cfg(s) if len(c["config"]["probes"][0][1]) == c["config"]["dim"])
        return []

    def execute(self, sched, ctx):
        cfg = sched["config"]
        st = cfg.get("strategy", "dimension_wise")
        if st == "dimension_wise":
            sim = DS.DimwiseSim(cfg, sched["rk"], ctx, self.monitors())
        else:
            from engines import extendsplit_sim as ES
            sim = (ES.ExtendSplitSim if st == "extend_split" else ES.CellSim)(cfg, sched["rk"], ctx, self.monitors())
        sim.build(probes=cfg["probes"])
        run_history(sim, cfg, ctx)


CHECKS["C04"] = C04


def gen_limit_ops(o, tier, nmax=3):
    """driver operations through the documented stop mechanism (limits): run, then continue with larger limits"""
    cands = [0, 3, 8, 15, 30, 60, 100, 160, 250, 400] if tier == "quick" else [0, 3, 8, 15, 30, 60, 100, 160, 250, 400, 700, 1000]
    k = o.randint(1, nmax)
    lims = sorted(o.sample(cands, k))
    ops = [["run", {"max_evaluations": lims[0]}]]
    for m in lims[1:]:
        # one continuation in five goes through the second route the API documents: a new driver call handed the old container
        ops.append(["restart" if o.random() < 0.2 else "continue", {"max_evaluations": m}])
    return ops


class C05(DimwiseCheck):
    pid = "C05"
    runs = {"quick": 1200, "thorough": 15000}
    budget_s = {"quick": 90.0, "thorough": 900.0}
    fixed_prefix = 1
    rule = ("schedule = strategy configuration + benefit answers + driver operations (run to a point limit, continue with larger limits - one "
            "continuation in five through a new driver call that is handed the old container -, 1-3 stops per history, recalculate_frequently "
            "with small refinements_for_recalculate in a share of runs; 30 % of the histories give driver calls a time budget (max_time on the simulated clock) next to the point limit; StandardCombi / DimAdaptiveCombi on the local grid families that run "
            "here: trapezoidal, Clenshaw-Curtis, Gauss-Legendre, Simpson, Leja, Lagrange, B-spline); at every stop the "
            "reported value is compared with (1) the coefficient-weighted sum of component results recomputed by an independent composite "
            "trapezoid on the reported point lists, (2) evaluate_final_combi() (twice) on a deep copy, (3) the same history run with "
            "reevaluate_at_end=True, (5) sum w f over get_points_and_weights(). distinct_nontrivial counts distinct refined structures at which a stop was checked")
    expected_probes = ["rebalancing", "new_lmax", "recalculating", "stop_checked", "continued", "standard_call_checked", "dim_adaptive_refined", "stopped_by_time_budget"]
    real = REAL + ["SpatiallyAdaptiveExtendScheme", "RefinementObjectExtendSplit", "TrapezoidalGrid", "StandardCombi", "DimAdaptiveCombi"]
    stub = STUB + ["DimAdaptiveCombi.calculate_surplus answers (keyed draws: the refinement schedule)"]

    def gen(self, rk, tier, idx):
        r = stream(rk, "cfg")
        strategy = r.choice(["dimension_wise"] * 5 + ["extend_split"] * 4 + ["standard", "dim_adaptive"])
        if strategy in ("standard", "dim_adaptive"):
            from engines import combi_drivers as CD
            cfg = CD.gen_standard_cfg(r, tier) if strategy == "standard" else CD.gen_dimadaptive_cfg(r, tier)
            return {"config": cfg, "ops": []}
        if strategy == "extend_split":
            from engines import extendsplit_sim as ES
            cfg = ES.gen_cfg(r, tier)
            cfg["version"] = 0          # the statement names extend-split in its default coarsening version
            cfg["grid"] = r.choice(["TrapezoidalGrid"] * 6 + ES.LOCAL_GRIDS[1:] + ["MixedGrid"] * 2)     # "every grid type" that runs in this strategy here
            if cfg["grid"] != "TrapezoidalGrid":
                cfg["boundary"] = True
                cfg["single_dim"] = False
            if cfg["grid"] == "MixedGrid":
                # 1-D families and boundary flags chosen per dimension (Simpson without boundary points does not run here)
                m = stream(rk, "mixed")
                cfg["mixed"] = []
                for d in range(cfg["dim"]):
                    k = m.choice(["Trapezoidal", "Trapezoidal", "ClenshawCurtis", "Simpson"])
                    cfg["mixed"].append([k, True if k == "Simpson" else m.random() < 0.5])
                cfg["boundary"] = all(bd for _, bd in cfg["mixed"])
            if cfg["lmin"] == cfg["lmax"]:
                cfg["automatic"] = False   # automatic decision at lmin == lmax raises (known finding of C07), not this property's subject
            # the point limits of the schedule bound the size; the leaf cap only cuts histories whose areas multiply while their
            # distinct points hardly grow (boundary points off, everything refined in every step: minutes per refinement step with
            # the automatic decision - seen as a timeout in a soak at seed 35) - cut runs are excluded and counted
            cfg["max_leaves"] = 150 if cfg.get("automatic") else 400
        else:
            cfg = DS.gen_cfg(r, tier)
            cfg["max_intervals"] = 10 ** 6      # the point limits of the schedule bound the size here
            cfg["grid"] = r.choice(["GlobalTrapezoidalGrid"] * 5 + DS.GLOBAL_GRIDS[1:])   # every global grid family that runs here
        cfg["strategy"] = strategy
        cfg["use_epoch"] = False
        cfg["nnoise"] = r.choice([1, 2, 3])
        cfg["max_points"] = 10 ** 6
        ops = gen_limit_ops(stream(rk, "ops"), tier)
        if strategy == "dimension_wise" and cfg.get("long_narrow"):
            for op in ops:      # one or two intervals per step: point limits in the hundreds mean hundreds of steps (each re-evaluated when recalc is on)
                op[1]["max_evaluations"] = min(op[1]["max_evaluations"], 200)
            ops = [op for i, op in enumerate(ops) if i == 0 or op[1]["max_evaluations"] > ops[i - 1][1]["max_evaluations"]]
        if strategy == "dimension_wise" and cfg["grid"] != "GlobalTrapezoidalGrid":
            for op in ops:      # hierarchical / high-order global rules are slow: keep their histories short
                op[1]["max_evaluations"] = min(op[1]["max_evaluations"], 60)
            ops = [op for i, op in enumerate(ops) if i == 0 or op[1]["max_evaluations"] > ops[i - 1][1]["max_evaluations"]]
            if r.random() < 0.6:
                # stop after every single refinement step (continue with the current point count as limit): transient states
                # between two ordinary stops become stops themselves
                ops = [["run", {"max_evaluations": 0}]] + [["step", {"max_evaluations": -1}] for _ in range(r.randint(3, 8))]
                if r.random() < 0.7:
                    cfg["rebalancing"] = True      # rotations re-level points while component grids keep their point sets
            cfg["dim"] = min(cfg["dim"], 2); cfg["a"] = cfg["a"][:cfg["dim"]]; cfg["b"] = cfg["b"][:cfg["dim"]]
            cfg["lmin"] = min(cfg["lmin"], 2); cfg["lmax"] = max(2, min(cfg["lmax"], cfg["lmin"] + 1))
            cfg["max_intervals"], cfg["max_points"] = 24, 400     # beyond that the run is cut (excluded), these rules are slow
        t = stream(rk, "time_budget")
        if t.random() < 0.3:
            # a time budget (max_time, in seconds of the simulated clock: one tick per clock read, seeded jumps) next to the point limit of
            # some driver calls: whichever binds first stops the run - a stop the point limits alone never produce at that position
            for op in ops:
                if op[0] != "step" and t.random() < 0.7:
                    op[1]["max_time"] = t.choice([0.003, 0.006, 0.01, 0.015, 0.02, 0.03, 0.05, 0.08])
                    if cfg["grid"] in ("GlobalTrapezoidalGrid", "TrapezoidalGrid") and not cfg.get("long_narrow"):
                        op[1]["max_evaluations"] = max(op[1]["max_evaluations"], 250)     # so that the budget, not the point limit, binds
        return {"config": cfg, "ops": ops}

    def simplify(self, s):
        if s["config"].get("strategy") in ("standard", "dim_adaptive"):
            return
        if s["config"].get("strategy") == "extend_split":
            from engines import extendsplit_sim as ES
            gen = ES.simplify_cfg(s)
        else:
            gen = DS.simplify_cfg(s)
        for c in gen:
            if c["config"].get("strategy") == "extend_split" and c["config"].get("version") != 0:
                continue
            yield c
        for i, op in enumerate(s["ops"]):
            m = op[1]["max_evaluations"]
            if op[0] == "step":
                continue
            if "max_time" in op[1]:
                n = copy.deepcopy(s); del n["ops"][i][1]["max_time"]; yield n
            for v in (0, 8, 30, 100):
                if v < m and (i == 0 or v > s["ops"][i - 1][1]["max_evaluations"]):
                    n = copy.deepcopy(s); n["ops"][i][1]["max_evaluations"] = v; yield n

    def drive(self, sched, ctx, reevaluate):
        cfg = sched["config"]
        if cfg.get("strategy") == "extend_split":
            from engines import extendsplit_sim as ES
            sim = ES.ExtendSplitSim(cfg, sched["rk"], ctx, [])
        else:
            sim = DS.DimwiseSim(cfg, sched["rk"], ctx, [])
        sim.eval_cap = 400
        sim.build()
        orc = DS.ResultOracle(sim)
        out = []
        for i, op in enumerate(sched["ops"]):
            kw = {"max_time": op[1]["max_time"]} if "max_time" in op[1] else {}
            try:
                if op[0] == "run":
                    ret = sim.perform(tol=-1.0, max_evaluations=op[1]["max_evaluations"], reevaluate_at_end=reevaluate, **kw)
                elif op[0] == "step":
                    ctx.probe("single_step_stop")
                    ret = sim.cont(tol=-1.0, max_evaluations=int(sim.sa.get_total_num_points()))
                elif op[0] == "restart":
                    ctx.probe("container_restart"); ctx.fault("container_restart")
                    ret = sim.perform(tol=-1.0, max_evaluations=op[1]["max_evaluations"], reevaluate_at_end=reevaluate, refinement_container=sim.last_ret[0], **kw)
                else:
                    ctx.probe("continued")
                    ret = sim.cont(tol=-1.0, max_evaluations=op[1]["max_evaluations"], **kw)
            except DS.StopRun:
                raise Excluded("no stop within the evaluation cap / size budget")
            if kw and not reevaluate and int(sim.sa.get_total_num_points()) <= op[1]["max_evaluations"]:
                # neither the tolerance (-1) nor the point limit stopped this call: the time budget did
                ctx.probe("stopped_by_time_budget"); ctx.fault("time_budget")
            ctx.state(sim.structure_key())
            out.append((ret, sim, orc))
            yield i, op, ret, sim, orc

    def execute(self, sched, ctx):
        import numpy as np
        st = sched["config"].get("strategy")
        if st in ("standard", "dim_adaptive"):
            from engines import combi_drivers as CD
            (CD.run_standard if st == "standard" else CD.run_dimadaptive)(sched["config"], sched["rk"], ctx)
            return
        plain = []
        for i, op, ret, sim, orc in self.drive(sched, ctx, False):
            label = "%s#%d" % (op[0], i)
            # clause (5) is stated for nodal (non-hierarchical) quadrature grids
            nodal = sim.strategy == "dimension_wise" and sched["config"].get("grid", "GlobalTrapezoidalGrid") in ("GlobalTrapezoidalGrid", "GlobalHighOrderGrid")
            last = i == len(sched["ops"]) - 1
            want, S, n = orc.at_stop(ret[3], label, points_weights=nodal, final_combi=(op[0] != "step" or last))
            ctx.probe("stop_checked")
            plain.append((np.array(ret[3], dtype=float), S, n, orc, sim.structure_key()))
        if "result" in ctx.tainted:
            return
        # (3) the same history with re-evaluation at the end of every driver call
        ctx2 = ctx
        for (i, op, ret, sim, orc), (rep, S, n, _, skey) in zip(self.drive(sched, ctx2, True), plain):
            if sim.structure_key() != skey:
                # only possible under a time budget: the re-evaluation reads the clock too, so a later call's budget can run out at
                # another evaluation - the two histories are then different histories and are not compared any further
                if not any("max_time" in o[1] for o in sched["ops"]):
                    ctx.violate("reevaluate_at_end_unchanged", orc.sig(stop="%s#%d" % (op[0], i)), "%s#%d: with reevaluate_at_end=True the run stops in another refinement state" % (op[0], i), taint="result")
                ctx.probe("reevaluation_twin_stopped_elsewhere_under_time_budget")
                return
            ok, tol = orc.close(np.array(ret[3], dtype=float), rep, S, n)
            ctx.fault("reevaluate_at_end")
            if not ok:
                ctx.violate("reevaluate_at_end_unchanged", orc.sig(stop="%s#%d" % (op[0], i)),
                            "%s#%d: with reevaluate_at_end=True the driver returns %s, without %s (tol %.2e)" % (op[0], i, list(ret[3]), rep.tolist(), tol), taint="result")
                return
        ctx.ok("reevaluate_at_end_unchanged")


CHECKS["C05"] = C05
