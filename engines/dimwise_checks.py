"""Checks served by dimwise_sim: C06 (structure), C03 (combination), later C04 C05 C13 C14 C15."""
import copy
from simcore.runner import Check
from simcore.ctx import Excluded
from simcore.seeds import stream
from engines import dimwise_sim as DS

REAL = ["SpatiallyAdaptiveSingleDimensions2", "SpatiallyAdaptivBase (driver loop, refine)", "MetaRefinementContainer",
        "RefinementContainer", "RefinementObjectSingleDimension", "CombiScheme", "Integration", "GlobalTrapezoidalGrid",
        "Function (call/cache paths)", "Interpolation"]
STUB = ["integrand values (SimFunction.eval: keyed hash)", "error estimator answers (SimErrorCalculator: keyed class draws)",
        "clocks (SimClock)", "stdout"]


class DimwiseCheck(Check):
    block = 8
    run_timeout_s = 120.0
    real, stub = REAL, STUB
    excluded_configs = ["lmax == 1 (initialize_refinement asserts lmax > 1)",
                        "coarsening versions 0, 1, 4, 5 (not among the versions the properties name; 4/5 print and assert internally)",
                        "grid families other than GlobalTrapezoidalGrid for the structure/combination monitors"]

    def setup(self):
        import numpy  # noqa
        import sparseSpACE.spatiallyAdaptiveSingleDimension2  # noqa
        import simcore.env  # noqa
        DS.install_observers()

    def monitors(self):
        raise NotImplementedError

    def gen(self, rk, tier, idx):
        r = stream(rk, "cfg")
        return {"config": DS.gen_cfg(r, tier), "ops": []}

    def simplify(self, s):
        return DS.simplify_cfg(s)

    def execute(self, sched, ctx):
        sim = DS.DimwiseSim(sched["config"], sched["rk"], ctx, self.monitors())
        sim.build()
        try:
            sim.perform(tol=-1.0, max_evaluations=None, stop_after=sched["config"]["evals"])
        except DS.StopRun:
            pass


class C06(DimwiseCheck):
    pid = "C06"
    runs = {"quick": 2500, "thorough": 30000}
    budget_s = {"quick": 70.0, "thorough": 700.0}
    rule = ("schedule = configuration (dim 1-4, lmin, lmax, coarsening version, rebalancing, safety factor, margin, box) plus the "
            "environment's benefit answers per interval and evaluation (keyed draws: zero / tie at 1.0 / uniform; modes all-equal "
            "and all-zero); the real adaptive loop runs for 1-6 evaluations. A state is the list of intervals with point levels of "
            "all dimensions; distinct_nontrivial counts distinct states reached after a refinement step (differing from the initial grid)")
    expected_probes = ["rebalancing", "new_lmax", "split_at_coarsening_zero", "ties_at_margin", "single_split_step",
                       "split_everything_step", "all_benefits_zero"]
    assumptions = ["benefits are read from the refinement objects immediately before refine(); the split threshold is computed with the same "
                   "floating-point expression the statement gives (benefit >= margin * largest benefit)",
                   "midpoint check applies to the unweighted trapezoidal grid only"]

    def monitors(self):
        return [DS.StructureMonitor()]


class C03(DimwiseCheck):
    pid = "C03"
    runs = {"quick": 2000, "thorough": 25000}
    budget_s = {"quick": 80.0, "thorough": 800.0}
    rule = ("schedule as for C06 (dimension-wise strategy, versions 2/3/6/7/8, rebalancing on/off, boundary on/off, arbitrary benefit "
            "answers); after every evaluation every component grid of the current scheme is inspected through the public observation "
            "points and the combined interpolant is compared with an integrand that is arbitrary per point (keyed hash). A state is the "
            "interval/level structure; distinct_nontrivial counts distinct refined structures on which the combination was checked")
    expected_probes = ["rebalancing", "new_lmax"]

    def monitors(self):
        return [DS.CombinationMonitor()]


CHECKS = {"C06": C06, "C03": C03}


class C04(DimwiseCheck):
    pid = "C04"
    runs = {"quick": 1500, "thorough": 20000}
    budget_s = {"quick": 80.0, "thorough": 800.0}
    rule = ("schedule = strategy configuration + benefit answers (as C06); the integrand carries exactness probes as extra output "
            "components (basis functions and a random combination of the initial (lmin,lmax) sparse-grid space; affine functions with the "
            "modified basis) that never steer refinement; after every evaluation the probe components of the reported result and of the "
            "combined interpolant at seeded points are compared with the analytic values. distinct_nontrivial counts distinct refined "
            "structures on which exactness was checked")
    expected_probes = ["rebalancing", "new_lmax"]

    def gen(self, rk, tier, idx):
        r = stream(rk, "cfg")
        cfg = DS.gen_cfg(r, tier)
        if r.random() < 0.15:
            cfg["boundary"] = False
            cfg["modified_basis"] = True
        p = stream(rk, "probes")
        if cfg["modified_basis"]:
            probes = DS.linear_probes(p, cfg["dim"], 3)
        else:
            probes = DS.initial_space_probes(p, cfg, 4)
        cfg["probes"] = probes
        return {"config": cfg, "ops": []}

    def monitors(self):
        return [DS.ExactnessMonitor()]

    def execute(self, sched, ctx):
        cfg = sched["config"]
        sim = DS.DimwiseSim(cfg, sched["rk"], ctx, self.monitors())
        sim.build(probes=cfg["probes"])
        try:
            sim.perform(tol=-1.0, max_evaluations=None, stop_after=cfg["evals"])
        except DS.StopRun:
            pass


CHECKS["C04"] = C04
