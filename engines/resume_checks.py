"""C14: interrupted, saved, crashed and resumed refinement ends where an uninterrupted run ends.
Fault enumeration: for every explored configuration *every* crash point (evaluation index of the uninterrupted twin)
is exercised; the configurations and the fault kind per crash point are seeded."""
import base64, copy, gc, json, os, subprocess, sys
import numpy as np
from simcore.runner import Check
from simcore.ctx import Excluded
from simcore.seeds import stream, H
from simcore import seams
from engines import dimwise_sim as DS
from engines import extendsplit_sim as ES

FAULTS = ["continue", "save_continue", "save_crash_restore", "save_torn", "save_short", "save_enospc", "save_lost", "two_stage", "child_restore",
          "container_restart"]


def model_of(op):
    """the stub that counts distinct evaluations: the integrand of Integration, the model of UncertaintyQuantification (whose
    integrand is the moment function built on top of it); density estimation has none"""
    m = getattr(op, "f_model", None)
    if m is None or not hasattr(m, "seen"):
        m = getattr(op, "f", None)
    return m if hasattr(m, "seen") else None


def flat(res):
    """a result as a flat list of floats: Integration / UQ return a vector, density estimation a dict level vector -> surpluses"""
    if isinstance(res, dict):
        out = []
        for k in sorted(res, key=lambda t: tuple(int(x) for x in t)):
            out.append(float(len(res[k])))
            out.extend(float(x) for x in np.asarray(res[k], dtype=float).ravel())
        return out
    return [float(x) for x in np.asarray(res, dtype=float).ravel()]


def snapshot_of(sa, strategy, ret):
    if strategy.startswith("dimension_wise"):
        st = [[(float(o.start).hex(), float(o.end).hex(), int(o.levels[0]), int(o.levels[1]), int(o.coarsening_level)) for o in
               sa.refinement.get_refinement_container_for_dim(d).get_objects()] for d in range(sa.dim)]
    elif strategy == "cell":
        st = sorted((tuple(float(x).hex() for x in o.start), tuple(float(x).hex() for x in o.end), bool(o.active), [int(x) for x in o.levelvec])
                    for o in sa.refinement.get_objects())
    else:
        st = sorted((tuple(float(x).hex() for x in o.start), tuple(float(x).hex() for x in o.end), int(o.coarseningValue), int(o.needExtendScheme))
                    for o in sa.refinement.get_objects())
    sch = sorted((tuple(int(x) for x in c.levelvector), float(c.coefficient)) for c in sa.scheme)
    return {"structure": json.loads(json.dumps(st)), "scheme": json.loads(json.dumps(sch)), "lmax": [int(x) for x in sa.lmax],
            "result": flat(ret[3]), "npoints": int(sa.get_total_num_points()),
            "distinct_evals": len(model_of(sa.operation).seen) if model_of(sa.operation) is not None else -1}


def _restore_in_fork(path):
    import sparseSpACE.StandardCombi as SC
    pid = os.fork()
    if pid == 0:
        code = 4
        try:
            try:
                with seams.quiet():
                    obj = SC.StandardCombi.restore_from_file(path)
                code = 3 if obj is not None else 0
            except BaseException:
                code = 0
        finally:
            os._exit(code)
    _, status = os.waitpid(pid, 0)
    if os.WIFSIGNALED(status):
        return "crashed_interpreter"
    return {0: "refused", 3: "returned_object"}.get(os.WEXITSTATUS(status), "refused")


def query_points(rk, a, b, n):
    return [tuple(a[d] + (b[d] - a[d]) * (0.03 + 0.94 * H(rk, "q", k, d)) for d in range(len(a))) for k in range(n)]


def query_sequence(inst, P, interp, clone=True):
    """The observable answers of an instance, asked in a fixed order on a deep copy (queries may evaluate the integrand at
    further points, which must not leak into the run that continues): interpolation, re-evaluation of the final
    refinement from scratch, interpolation again, reported result, point count. Compared bit for bit between the
    saved and the restored instance - state that is dropped on save and rebuilt lazily after restore shows here."""
    import copy
    # deepcopy goes through __getstate__ like pickling does, so the saved side is asked directly (it is dropped
    # afterwards) and the restored side is a second restore from the same bytes
    c = copy.deepcopy(inst) if clone else inst
    out = []
    hexes = lambda arr: [float(x).hex() for x in np.asarray(arr, dtype=float).ravel()]
    with seams.quiet():
        def ask(label):
            # where the saved instance itself cannot interpolate in this state (observed: extend-split version 2 on a
            # Lagrange grid raises KeyError for a level vector it never evaluated) the restored one has to behave alike
            try:
                out.append([label] + hexes(c(P)))
            except (KeyError, ValueError, IndexError, AssertionError) as e:
                out.append([label + "_raises", type(e).__name__])
        if interp:
            ask("interpolation")
        r, _ = c.evaluate_final_combi()
        out.append(["final_combi"] + [float(x).hex() for x in flat(r)])
        if interp:
            ask("interpolation_after_final_combi")
        out.append(["result"] + [float(x).hex() for x in flat(c.operation.get_result())])
        out.append(["points", int(c.get_total_num_points())])
    return out


def compare(ctx, sig, twin, got, what, skip=(), rtol=None):
    for key in ("structure", "scheme", "lmax", "npoints", "distinct_evals"):
        if key in skip:
            continue
        if twin[key] != got[key]:
            ctx.violate("resume_" + key, sig, "%s: final %s differs from the uninterrupted run: %s vs %s" % (
                what, key, json.dumps(got[key])[:300], json.dumps(twin[key])[:300]))
    x, y = np.array(got["result"]), np.array(twin["result"])
    tol = (rtol or 1e-11) * (1.0 + (float(np.max(np.abs(y))) if y.size else 0.0)) * max(8, len(twin["scheme"]))
    if "result" not in skip and (x.shape != y.shape or not np.all(np.abs(x - y) <= tol)):
        ctx.violate("resume_result", sig, "%s: final result %s, uninterrupted run %s (tol %.1e)" % (what, x.tolist(), y.tolist(), tol))
    ctx.ok("resume_equals_twin")


class C14(Check):
    pid = "C14"
    level = "fault_enumeration"
    technique = "deterministic simulation with fault injection: enumeration of every crash point of each explored run, seeded configurations and fault kinds"
    runs = {"quick": 1400, "thorough": 6000}
    budget_s = {"quick": 100.0, "thorough": 1200.0}
    block = 4
    run_timeout_s = 300.0
    min_runs = 10
    real = ["SpatiallyAdaptivBase.continue_adaptive_refinement", "StandardCombi.save_to_file / restore_from_file (real dill)",
            "SpatiallyAdaptiveSingleDimensions2", "SpatiallyAdaptiveExtendScheme", "SpatiallyAdaptiveCellScheme", "refinement containers", "Integration", "Function cache",
            "UncertaintyQuantification on GlobalTrapezoidalGridWeighted (dimension-wise)", "DensityEstimation with and without its reuse caches (dimension-wise)",
            "GlobalLagrangeGrid / GlobalBSplineGrid / GlobalHighOrderGrid (dimension-wise, a quarter of those runs)",
            "real error estimators in a share of runs"]
    stub = ["file system (SimFS: in-memory, write faults torn/short/enospc/lost)", "integrand values", "error-estimator answers (keyed, without evaluation counter)",
            "clocks", "process crash = dropping the object graph (thorough tier: restore in a fresh interpreter from the bytes only)"]
    rule = ("one evaluation = one configuration (strategy, options, environment, final point limit): an uninterrupted twin run yields evaluation "
            "indices 0..m; then EVERY k < m is used as crash point: stop after evaluation k by the limit mechanism, apply the fault kind drawn for "
            "(configuration, k) from {continue, save+continue, save+crash+restore, torn/short/enospc/lost save + continue live, two-stage stop, "
            "continuation through a new driver call handed the old container, restore in a fresh interpreter (thorough)}; a quarter of the "
            "first legs ask for re-evaluation at their end; at a quarter of the crash points another adaptive object of any strategy is built and run in "
            "the same interpreter while the run is stopped (foreign activity); run to the final limit and compare structure, scheme, result and point count with the twin. "
            "A state is (configuration class, crash point, fault kind, final structure); distinct_nontrivial counts distinct such tuples")
    expected_probes = ["crash_point", "restored_equals_saved", "foreign_activity_dimension_wise", "foreign_activity_extend_split", "foreign_activity_cell", "strategy_dimension_wise", "strategy_dimension_wise_other_grid", "strategy_extend_split",
                       "strategy_cell", "strategy_dimension_wise_uq", "strategy_dimension_wise_de"]
    assumptions = ["pickle has no integrity check and no property promises one: bit flips inside a successfully written file are not injected",
                   "a failed save or a failed restore must fail loudly and leave the live instance untouched"]
    excluded_configs = ["cell strategy: driven for stop / save / restore / continue, but without the interpolation query (not offered by this strategy)",
                        "crash points at which the first leg's re-evaluation itself evaluated further points (extend-split version 2): skipped and counted",
                        "extend-split: automatic decision with lmin == lmax (known finding of C07)"]

    def setup(self):
        import sparseSpACE.spatiallyAdaptiveSingleDimension2, sparseSpACE.spatiallyAdaptiveExtendSplit, sparseSpACE.spatiallyAdaptiveCell  # noqa
        import simcore.env  # noqa
        DS.install_observers()

    def gen(self, rk, tier, idx):
        r = stream(rk, "cfg")
        strategy = r.choice(["dimension_wise"] * 5 + ["extend_split"] * 4 + ["cell", "standard"] + ["dimension_wise_uq"] * 2 + ["dimension_wise_de"] * 2)
        if strategy == "standard":
            from engines import combi_drivers as CD
            cfg = CD.gen_standard_cfg(r, tier)
            cfg.update(reuse_path=r.random() < 0.5, fault_weights={}, final=0, estimator="none", next_call=[r.choice([1, 2]), r.choice([2, 3, 4])])
            cfg["std_write_fault"] = r.choice([None, None, "torn", "short", "enospc", "lost"])
            return {"config": cfg, "ops": []}
        if strategy == "cell":
            cfg = ES.gen_cell_cfg(r, tier)
            cfg["max_leaves"] = 10 ** 6
        elif strategy == "dimension_wise_uq":
            # other operations under the same driver: uncertainty quantification on the weighted grid (distribution objects with
            # closures, moment functions stacked on the model) ...
            from engines import uq_sim as UQ
            cfg = UQ.C15().gen(rk, tier, idx)["config"]
            cfg["max_intervals"] = 10 ** 6
        elif strategy == "dimension_wise_de":
            # ... and density estimation, whose reuse caches (old matrices, right-hand sides, grid coordinates, data bins) are
            # state that has to survive a save / restore and a continuation
            from engines import de_reuse_sim as DE
            cfg = DE.C17().gen(rk, tier, idx)["config"]
            cfg.update(numeric=False, big=False, max_intervals=10 ** 6, reuse=r.random() < 0.7, a=[0.0] * cfg["dim"], b=[1.0] * cfg["dim"])
            if cfg["lmax"] > 2 and cfg["dim"] > 2:
                cfg["lmax"] = 2
        elif strategy == "dimension_wise":
            cfg = DS.gen_cfg(r, tier, dims=(1, 2, 2, 2, 3))
            cfg["max_intervals"] = 10 ** 6
            if r.random() < 0.25:      # hierarchical / high-order global grid families that run in this strategy here
                cfg["grid"] = r.choice(DS.GLOBAL_GRIDS[1:])
        else:
            cfg = ES.gen_cfg(r, tier)
            cfg["max_leaves"] = 10 ** 6
            if cfg["lmin"] == cfg["lmax"]:
                cfg["automatic"] = False
            if r.random() < 0.3:       # other local grid families that run in this strategy here
                cfg["grid"] = r.choice(ES.LOCAL_GRIDS[1:] + ["LagrangeGrid"])
                cfg["boundary"] = True
                cfg["single_dim"] = False
        cfg.update(strategy=strategy, use_epoch=False, max_points=10 ** 6, estimator=r.choice(["keyed", "keyed", "real"]), clock_jumps=r.random() < 0.3)
        cfg["final"] = r.choice([20, 40, 70, 110, 160] if tier == "quick" else [40, 70, 110, 160, 250, 400])
        if strategy == "dimension_wise_de":
            cfg["estimator"] = "keyed"
        if strategy == "dimension_wise_uq":
            # the library's own estimator works on the helper grid handed to the strategy (grid_surplusses = the operation's
            # weighted grid): one of the object aliases a restore has to bring back
            cfg["estimator"] = stream(rk, "uq_estimator").choice(["keyed", "real"])
        if strategy == "dimension_wise" and cfg.get("grid"):
            # hierarchical / high-order global rules are slow (B-spline: seconds per evaluation beyond a hundred points): short, small histories
            cfg["final"] = r.choice([20, 40, 60])
            cfg["dim"] = min(cfg["dim"], 2); cfg["a"] = cfg["a"][:cfg["dim"]]; cfg["b"] = cfg["b"][:cfg["dim"]]
            cfg["lmin"] = min(cfg["lmin"], 2); cfg["lmax"] = max(2, min(cfg["lmax"], cfg["lmin"] + 1))
            if cfg.get("bias") and isinstance(cfg["bias"][1], list):
                cfg["bias"][1] = cfg["bias"][1][:cfg["dim"]]
        if strategy == "dimension_wise_de":
            cfg["final"] = r.choice([20, 40, 70, 110])
        cfg["fault_weights"] = {f: r.choice([0, 1, 1, 2]) for f in FAULTS if f != "child_restore"}
        cfg["fault_weights"]["child_restore"] = (1 if tier == "thorough" else 0)
        if not any(cfg["fault_weights"].values()):
            cfg["fault_weights"]["save_crash_restore"] = 1
        cfg["max_crash_points"] = 10 if tier == "quick" else 16
        cfg["reuse_path"] = r.random() < 0.5      # one checkpoint file overwritten at successive crash points
        # tolerances: the legs of an interrupted run may carry other tolerances than the final one ("continuing with larger limits"
        # includes a smaller tolerance); the first leg's tolerance is one the run does not meet before its point limit, the final
        # one is -1 (never met), 0.0 or the integer 0 (met only by an error estimate of exactly zero)
        t = stream(rk, "tols")
        cfg["tols"] = [t.choice([-1.0, -1.0, 1e-30, 1e-12]), t.choice([-1.0, -1.0, -1.0, 0.0, 0])]
        # (not for extend-split versions 1 / 2: there the from-scratch value of a re-evaluated first leg differs from the incrementally
        # maintained one even without interruption (9.2), and with a reference solution the estimates that steer refinement read those
        # values - a false alarm of this kind was raised by a soak at seed 4, run 197, and corrected in round 14)
        if strategy in ("dimension_wise", "extend_split", "cell") and not (strategy == "extend_split" and cfg.get("version") in (1, 2)) \
                and stream(rk, "reference").random() < 0.4:
            # an operation with a reference solution: the driver then works with the global error estimate (another return path of
            # every evaluation); the tolerances above stay out of reach of a hash-valued integrand
            rr = stream(rk, "reference_values")
            cfg["reference"] = [rr.choice([0.5, -0.3, 2.0, 0.05]) for _ in range(cfg["nnoise"])]
        return {"config": cfg, "ops": []}

    def simplify(self, s):
        st = s["config"]["strategy"]
        if st == "standard":
            c = s["config"]
            if len(c["calls"]) > 1:
                n = copy.deepcopy(s); n["config"]["calls"] = c["calls"][:-1]; yield n
            if c["dim"] > 1:
                n = copy.deepcopy(s); n["config"].update(dim=c["dim"] - 1, a=c["a"][:-1], b=c["b"][:-1]); yield n
            return
        gen = DS.simplify_cfg(s) if st == "dimension_wise" else (ES.simplify_cfg(s) if st in ("extend_split", "cell") else [])
        for c in gen:
            yield c
        for v in (20, 40, 70):
            if s["config"]["final"] > v:
                n = copy.deepcopy(s); n["config"]["final"] = v; yield n
        if "only_k" not in s["config"]:
            for k in range(0, 12):
                n = copy.deepcopy(s); n["config"]["only_k"] = k; yield n
        for f in FAULTS:
            w = s["config"]["fault_weights"]
            if w.get(f) and sum(1 for x in w.values() if x) > 1:
                n = copy.deepcopy(s); n["config"]["fault_weights"] = {g: (1 if g == f else 0) for g in FAULTS}; yield n

    def make(self, cfg, rk, ctx):
        st = cfg["strategy"]
        if st == "dimension_wise_uq":
            from engines import uq_sim as UQ
            sim = UQ.UQSim(cfg, rk, ctx, [])
        elif st == "dimension_wise_de":
            from engines import de_reuse_sim as DE
            sim = DE.DESim(cfg, rk, ctx, cfg["reuse"])
            sim.record = False
        else:
            cls = {"dimension_wise": DS.DimwiseSim, "cell": ES.CellSim}.get(st, ES.ExtendSplitSim)
            sim = cls(cfg, rk, ctx, [])
        sim.eval_cap = 150
        if cfg.get("reference"):
            sim.build(reference=cfg["reference"])
            ctx.probe("operation_with_reference_solution")
        else:
            sim.build()
        if st in ("dimension_wise_uq", "dimension_wise_de"):
            ctx.exc_sig = dict(getattr(ctx, "exc_sig", None) or {}, strategy=st)
            sim.too_big = lambda: False
        return sim

    def run_to(self, sim, limit, first=True, reevaluate=False, container=None, tol=-1.0):
        try:
            if container is not None:
                # the second continuation route the API documents: a new driver call that is handed the old container
                return sim.perform(tol=tol, max_evaluations=limit, refinement_container=container)
            if first:
                return sim.perform(tol=tol, max_evaluations=limit, reevaluate_at_end=reevaluate)
            return sim.cont(tol=tol, max_evaluations=limit)
        except DS.StopRun:
            raise Excluded("no stop within the evaluation cap")

    def execute_standard(self, cfg, rk, ctx):
        """StandardCombi: perform_operation calls, save, crash, restore twice; the restored object answers interpolation,
        point count and points-and-weights like the saved one, and a further perform_operation on it gives what the
        same call gives on an instance that was never saved."""
        import sparseSpACE.StandardCombi as SC
        from sparseSpACE.GridOperation import Integration
        from simcore.env import SimFunction
        from engines import combi_drivers as CD
        sig = {"strategy": "standard", "fault": "save_crash_restore", "estimator": "none", "grid": cfg.get("grid", "TrapezoidalGrid")}
        ctx.exc_sig = {"strategy": "standard", "grid": cfg.get("grid", "TrapezoidalGrid")}
        a, b = np.array(cfg["a"], dtype=float), np.array(cfg["b"], dtype=float)

        def build():
            f = SimFunction(rk, nnoise=cfg["nnoise"])
            op = Integration(f=f, grid=CD.make_std_grid(cfg), dim=cfg["dim"], print_level=100, log_level=100)
            sc = SC.StandardCombi(a, b, operation=op, print_level=100, log_level=100)
            for lmin, lmax in cfg["calls"]:
                sc.perform_operation(lmin, lmax)
                ctx.step()
            return sc
        P = query_points(rk, cfg["a"], cfg["b"], 5)
        hexes = lambda arr: [float(x).hex() for x in np.asarray(arr, dtype=float).ravel()]

        def answers(sc):
            out = [["points", int(sc.get_total_num_points())]]
            if cfg["boundary"]:
                try:
                    out.append(["interpolation"] + hexes(sc(P)))
                except Exception as e:      # a family that cannot interpolate must fail alike on the restored instance
                    if cfg.get("grid", "TrapezoidalGrid") == "TrapezoidalGrid":
                        raise
                    out.append(["interpolation_raises", type(e).__name__])
            pts, w = sc.get_points_and_weights()
            out.append(["points_and_weights"] + hexes(pts) + hexes(w))
            _, _, res = sc.perform_operation(*cfg["next_call"])
            out.append(["next_call_result"] + hexes(res) + [int(sc.get_total_num_points())])
            return out
        with seams.quiet():
            twin = answers(build())
            sc = build()
            path = "mem://checkpoint" if cfg.get("reuse_path") else "mem://c14-std"
        fk = cfg.get("std_write_fault")
        if fk:
            # a save that meets a device fault first: it must fail loudly (torn / enospc) or leave nothing restorable behind
            # (short / lost), and the live instance must be untouched - the clean save below and its answers show that
            fpath = path + ".faulted"
            n = int(H(rk, "cut", "std") * 3000)
            seams.FS.plan[fpath] = (fk, n) if fk in ("torn", "short") else (fk,)
            raised = None
            try:
                with seams.quiet():
                    sc.save_to_file(fpath)
            except OSError as e:
                raised = type(e).__name__
                import traceback as _tb
                _tb.clear_frames(e.__traceback__)
                e.__traceback__ = None
            fired = [x for x in seams.FS.fired if x[1] == fpath]
            if fired:
                ctx.fault("save_" + fk)
            fsig = dict(sig, fault="save_" + fk)
            if fk in ("torn", "enospc") and fired and raised is None:
                ctx.violate("failed_save_is_loud", fsig, "StandardCombi: the write failed (%s) but save_to_file returned normally" % (fired,))
            if fired and (fk in ("lost", "torn") or fk == "short"):
                complete = False
                if fk == "short":
                    with seams.quiet():
                        sc.save_to_file(fpath + ".full")
                    complete = len(seams.FS.files[fpath + ".full"]) <= n
                if not complete:
                    outcome = _restore_in_fork(fpath)
                    if outcome == "returned_object":
                        ctx.violate("failed_restore_is_loud", fsig, "StandardCombi: restoring an incomplete file (%s) returned an object" % (fired,))
                    ctx.probe("incomplete_file_" + outcome)
        with seams.quiet():
            sc.save_to_file(path)
            ctx.fault("save")
            live = answers(sc)
            del sc
            ctx.fault("crash_restore")
            got = answers(SC.StandardCombi.restore_from_file(path))
            again = answers(SC.StandardCombi.restore_from_file(path))
        ctx.probe("crash_point")
        ctx.state(("standard", cfg["dim"], json.dumps(cfg["calls"]), cfg["boundary"]))
        for name, x in (("restored", got), ("restored a second time", again), ("never-saved twin", twin)):
            if x != live:
                diff = [q[0] for q, w in zip(x, live) if q != w]
                ctx.violate("restored_equals_saved" if name != "never-saved twin" else "save_leaves_instance_untouched", sig,
                            "StandardCombi after calls %s: %s instance answers %s differently from the saved one" % (cfg["calls"], name, diff))
        ctx.probe("restored_equals_saved")
        ctx.ok("restored_equals_saved")

    def execute(self, sched, ctx):
        cfg, rk = sched["config"], sched["rk"]
        st = cfg["strategy"]
        if st == "standard":
            return self.execute_standard(cfg, rk, ctx)
        final = cfg["final"]
        ctx.probe("strategy_" + st + ("" if cfg.get("grid") in (None, "TrapezoidalGrid", "GlobalTrapezoidalGrid") else "_other_grid"))
        twin_sim = self.make(cfg, rk, ctx)
        tol0, tolF = cfg.get("tols", [-1.0, -1.0])
        ret = self.run_to(twin_sim, final, tol=tolF)
        twin = snapshot_of(twin_sim.sa, st, ret)
        N = [int(x) for x in ret[6]]
        m = len(N) - 1
        ctx.ev("twin", N, twin["npoints"])
        ctx.state(("twin", st, json.dumps(twin["structure"])[:2000]))
        ks = list(range(m))
        if len(ks) > cfg["max_crash_points"]:
            step = len(ks) / float(cfg["max_crash_points"])
            ks = sorted(set(int(i * step) for i in range(cfg["max_crash_points"])))
            ctx.probe("crash_points_subsampled")
        if "only_k" in cfg:
            ks = [k for k in ks if k == cfg["only_k"]]
        kinds = [f for f, w in cfg["fault_weights"].items() for _ in range(w)]
        if os.environ.get("VERIF_C14_ONLY_FAULT"):      # focused soak of one fault kind (debugging knob, not used by the registered commands)
            kinds = [os.environ["VERIF_C14_ONLY_FAULT"]]
        self._twin_reeval = None
        for k in ks:
            kind = kinds[int(H(rk, "fault", k) * len(kinds)) % len(kinds)]
            self.one_crash_point(cfg, rk, ctx, st, twin, N, k, kind, final)

    def twin_reeval(self, cfg, rk, ctx, st, final, N):
        """the uninterrupted reference for histories whose first leg asked for re-evaluation at the end: the object keeps that
        option, so the continued run re-evaluates from scratch at its end too - and so must the uninterrupted run it is compared
        with (in extend-split versions 1 / 2 the from-scratch value differs from the incrementally maintained one even without
        any interruption, and version 2 touches further points while re-evaluating)"""
        if self._twin_reeval is None:
            sim = self.make(cfg, rk, ctx)
            ret = self.run_to(sim, final, reevaluate=True, tol=cfg.get("tols", [-1.0, -1.0])[1])
            t = snapshot_of(sim.sa, st, ret)
            self._twin_reeval = t if [int(x) for x in ret[6]] == N else "diverged"
        return self._twin_reeval

    def one_crash_point(self, cfg, rk, ctx, st, twin, N, k, kind, final):
        sig = {"strategy": st, "fault": kind, "estimator": cfg["estimator"]}
        ctx.probe("crash_point")
        ctx.step()
        sim = self.make(cfg, rk, ctx)
        if kind == "container_restart":
            ctx.exc_sig = dict(ctx.exc_sig or {}, fault=kind, version=cfg.get("version"), estimator=cfg["estimator"])     # an exception on this route carries the route in its signature
        stop_lim = N[k] - 1 if k > 0 else 0
        # a quarter of the first legs ask for the re-evaluation at the end: the stop is then a from-scratch evaluation, and the
        # continuation starts from whatever bookkeeping that leaves behind
        reeval = H(rk, "reeval_first_leg", k) < 0.25
        if reeval and st == "extend_split" and cfg.get("version") in (1, 2) and (cfg["estimator"] == "real" or cfg.get("automatic")):
            # in versions 1 / 2 the from-scratch value of a re-evaluated leg differs from the incrementally maintained one (9.2); the
            # library's estimator and the automatic decision read those values, so the continuation legitimately takes another path than
            # a run that re-evaluates only at its end - no reference exists for such a leg (false alarm of a soak at seed 4, run 197)
            ctx.probe("reevaluated_first_leg_not_drawn_where_decisions_read_values")
            reeval = False
        if reeval:
            twin = self.twin_reeval(cfg, rk, ctx, st, final, N)
            if twin == "diverged":
                ctx.probe("reevaluating_twin_took_another_path")     # not expected (the re-evaluation happens after the last step): not judged
                return
        tol0, tolF = cfg.get("tols", [-1.0, -1.0])
        r1 = self.run_to(sim, stop_lim, reevaluate=reeval, tol=tol0)
        if reeval:
            sig["first_leg_reevaluated"] = True
            ctx.fault("reevaluate_at_end")
            if model_of(sim.sa.operation) is not None and len(model_of(sim.sa.operation).seen) != N[k]:
                # the from-scratch evaluation touched points the incremental one never used (observed: extend-split coarsening
                # version 2): the point count, which the limits are expressed in, has moved, so the uninterrupted twin is no
                # reference for this continuation (the statement is about stop / continue, not about re-evaluation)
                ctx.probe("reevaluation_evaluated_further_points")
                return
        ctx.fault("stop@k")
        ctx.ev("crash_point", k, kind, [int(x) for x in r1[6]])
        what = "crash point %d (%s)" % (k, kind)
        if H(rk, "foreign_activity", k) < 0.25:
            # while this run is stopped the process is not idle: another adaptive object (of any of the three strategies, on its own
            # integrand) is built and run in the same interpreter. Nothing it does may reach the stopped instance, the file or the
            # continuation - state kept on classes or modules instead of instances would
            self.foreign_activity(rk, k, ctx)
            sig["foreign_activity"] = True
        sa = sim.sa
        path = "mem://checkpoint" if cfg.get("reuse_path") else "mem://c14-%d" % k
        a, b = cfg["a"], cfg["b"]
        import math
        qa = [x if math.isfinite(x) else (y - 4.0 if math.isfinite(y) else -2.0) for x, y in zip(a, b)]
        qb = [y if math.isfinite(y) else (x + 4.0 if math.isfinite(x) else 2.0) for x, y in zip(a, b)]
        P = query_points(rk, qa, qb, 5)
        # __call__ raises for extend-split without boundary points (known finding of C07) and is not supported on grids
        # without points on the area boundaries (Gauss-Legendre); the restored-equals-saved clause then compares result and counts
        interp = st != "cell" and not (st == "extend_split" and (not cfg["boundary"] or cfg.get("grid", "TrapezoidalGrid") not in ("TrapezoidalGrid", "LagrangeGrid", "LagrangeGrid2")))
        # queries run on deep copies: __call__ may evaluate the integrand at further points (it does for extend-split
        # version 2), which moves the point count and hence the stop of the continued run - the statement is about
        # stop / save / restore / continue, not about queries in between
        call = lambda inst: query_sequence(inst, P, interp, clone=False)
        container = None
        if kind == "continue":
            pass
        elif kind == "container_restart":
            container = r1[0]
            ctx.fault("container_restart")
            # this route re-initialises every area and evaluates it again, which loses what the areas remembered about their
            # history: the signature carries the configuration classes in which that matters (known findings)
            sig.update(automatic=bool(cfg.get("automatic", False)), version=cfg.get("version"))
        elif kind == "two_stage":
            mid = (stop_lim + final) // 2
            r_mid = self.run_to(sim, mid, first=False, tol=tolF)
            ctx.fault("stop@k")
            if reeval and model_of(sim.sa.operation) is not None and len(model_of(sim.sa.operation).seen) != int(r_mid[6][-1]):
                # the object remembers reevaluate_at_end: the intermediate stop re-evaluated from scratch as well and (extend-split
                # version 2) touched further points - the count the limits are expressed in has moved, as at a first leg
                ctx.probe("reevaluation_evaluated_further_points")
                return
        elif kind in ("save_continue", "save_crash_restore", "child_restore"):
            with seams.quiet():
                sa.save_to_file(path)
            ctx.fault("save")
            if path not in seams.FS.files or not seams.FS.files[path]:
                ctx.violate("save_writes_file", sig, "%s: save_to_file reported success but no bytes are stored" % what)
            if kind != "save_continue":
                before_res = np.array(flat(sa.operation.get_result()), dtype=float)
                before_n = int(sa.get_total_num_points())
                before_vals = call(sa)      # asked on the live saved instance, which is dropped right afterwards
                data = seams.FS.files[path]
                # crash: only the bytes survive
                sim.sa = sim.op = sim.f = sim.err = None
                del sa
                pass
                ctx.fault("crash_restore")
                if kind == "child_restore":
                    ctx.fault("restore_in_fresh_interpreter")
                    got, vals = self.child(dict(cfg, a=qa, b=qb), rk, data, final, st, interp)
                    if before_vals != vals:
                        ctx.violate("restored_equals_saved", sig, "%s: answers of the instance restored in a fresh interpreter differ from the saved one: %s vs %s" % (
                            what, [q[0] for q, w in zip(vals, before_vals) if q != w], [w[0] for q, w in zip(vals, before_vals) if q != w]))
                    ctx.probe("restored_equals_saved")
                    compare(ctx, sig, twin, got, what, rtol=1e-8 if st == "dimension_wise_de" else None)
                    ctx.state((st, k, kind, json.dumps(got["structure"])[:2000]))
                    return
                import sparseSpACE.StandardCombi as SC
                with seams.quiet():
                    sa2 = SC.StandardCombi.restore_from_file(path)
                with seams.quiet():
                    sa3 = SC.StandardCombi.restore_from_file(path)
                after_vals = call(sa3)
                del sa3
                if not (before_vals == after_vals and np.array_equal(before_res, np.array(flat(sa2.operation.get_result()), dtype=float))
                        and before_n == int(sa2.get_total_num_points())):
                    diff = [q[0] for q, w in zip(after_vals, before_vals) if q != w]
                    ctx.violate("restored_equals_saved", sig, "%s: restored instance differs from the saved one in %s: %s vs %s, result %s vs %s, points %d vs %d" % (
                        what, diff, [q for q in after_vals if q[0] in diff][:2], [q for q in before_vals if q[0] in diff][:2],
                        flat(sa2.operation.get_result())[:8], before_res.tolist()[:8], int(sa2.get_total_num_points()), before_n))
                ctx.probe("restored_equals_saved")
                sim.sa, sim.op, sim.f, sim.err = sa2, sa2.operation, model_of(sa2.operation), sa2.errorEstimator
        else:   # write faults: the live instance must be untouched, failure must be loud
            fk = kind[len("save_"):]
            n = int(H(rk, "cut", k) * 4000)
            seams.FS.plan[path] = (fk, n) if fk in ("torn", "short") else (fk,)
            raised = None
            try:
                with seams.quiet():
                    sa.save_to_file(path)
            except OSError as e:
                raised = type(e).__name__
                import traceback as _tb
                _tb.clear_frames(e.__traceback__)
                e.__traceback__ = None
            fired = [x for x in seams.FS.fired if x[1] == path]
            if fired:
                ctx.fault(kind)
            if fk in ("torn", "enospc") and fired and raised is None:
                ctx.violate("failed_save_is_loud", sig, "%s: the write failed (%s) but save_to_file returned normally" % (what, fired))
            if fk in ("short", "lost") or (fk == "torn" and fired):
                # whatever is on disk is not a complete image: restoring it must fail loudly, never return an object
                import sparseSpACE.StandardCombi as SC
                complete = None
                if fk == "short" and fired:
                    # a cut beyond the full length leaves a complete file; learn the full length from a clean save
                    with seams.quiet():
                        sa.save_to_file(path + ".full")
                    complete = len(seams.FS.files[path + ".full"]) <= n
                if not complete:
                    # unpickling a truncated image can leave half-built extension objects behind (observed: the interpreter
                    # segfaults in a later garbage collection), so the attempt runs in a forked throw-away child
                    outcome = _restore_in_fork(path)
                    if outcome == "returned_object":
                        ctx.violate("failed_restore_is_loud", sig, "%s: restoring an incomplete file (%s) returned an object" % (what, fired))
                    ctx.probe("incomplete_file_" + outcome)
        ret = self.run_to(sim, final, first=False, container=container, tol=tolF)
        got = snapshot_of(sim.sa, st, ret)
        skip = ()
        if reeval and got["distinct_evals"] != int(ret[6][-1]):
            ctx.probe("reevaluation_evaluated_further_points")      # (compared with a twin that re-evaluated at its end as well)
        # density estimation solves linear systems: a continued run re-evaluates on entry with warm caches, the surpluses agree up
        # to the rounding the solves amplify (same bound as the cache-transparency check uses)
        compare(ctx, sig, twin, got, what, skip=skip, rtol=1e-8 if st == "dimension_wise_de" else None)
        ctx.state((st, k, kind, json.dumps(got["structure"])[:2000]))

    def foreign_activity(self, rk, k, ctx):
        r = stream(rk, "foreign%d" % k)
        kind = r.choice(["dimension_wise", "extend_split", "cell"])
        if kind == "dimension_wise":
            fcfg = DS.gen_cfg(r, "quick", dims=(1, 2, 2, 3))
            fcfg["max_intervals"] = 10 ** 6
        elif kind == "extend_split":
            fcfg = ES.gen_cfg(r, "quick")
            fcfg["max_leaves"] = 10 ** 6
            if fcfg["lmin"] == fcfg["lmax"]:
                fcfg["automatic"] = False
        else:
            fcfg = ES.gen_cell_cfg(r, "quick")
            fcfg["max_leaves"] = 10 ** 6
        fcfg.update(strategy=kind, use_epoch=False, max_points=10 ** 6, estimator=r.choice(["keyed", "real"]), clock_jumps=False)
        saved_sig = getattr(ctx, "exc_sig", None)
        cls = {"dimension_wise": DS.DimwiseSim, "cell": ES.CellSim}.get(kind, ES.ExtendSplitSim)
        try:
            fsim = cls(fcfg, rk + "|foreign%d" % k, ctx, [])
            fsim.eval_cap = 25
            fsim.build()
            with seams.quiet():
                fsim.perform(tol=-1.0, max_evaluations=r.choice([10, 30, 60]))
        except (DS.StopRun, Excluded):
            pass
        except Exception as e:
            if getattr(e, "harness", False):
                raise
            # whatever the foreign run itself suffers (its configuration may sit in a known finding) is not this check's subject
            ctx.probe("foreign_activity_raised")
        finally:
            ctx.exc_sig = saved_sig
        ctx.fault("foreign_activity"); ctx.probe("foreign_activity_" + kind)

    def child(self, cfg, rk, data, final, st, interp=True):
        req = {"bytes": base64.b64encode(data).decode(), "rk": rk, "final": final, "tol": cfg.get("tols", [-1.0, -1.0])[1], "strategy": st, "a": cfg["a"], "b": cfg["b"], "npts": 5, "interp": bool(interp)}
        env = dict(os.environ)
        p = subprocess.run([sys.executable, "-m", "simcore.child_restore"], input=json.dumps(req) + "\n", capture_output=True, text=True,
                           cwd=os.path.dirname(os.path.dirname(os.path.abspath(__file__))), env=env, timeout=240)
        for line in p.stdout.splitlines():
            if line.startswith("@@SNAP@@"):
                d = json.loads(line[len("@@SNAP@@"):])
                return d["snap"], d["vals"]
        raise RuntimeError("child restore failed: %s" % (p.stderr[-800:]))

    def extra_evidence(self, agg):
        return {"crash_points_enumerated": agg["probes"].get("crash_point", 0),
                "configurations_with_subsampled_crash_points": agg["probes"].get("crash_points_subsampled", 0),
                "exhaustive": False}


CHECKS = {"C14": C14}
