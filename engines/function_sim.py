"""function_sim (C12) - histories of single / batch / vectorised evaluations, cache resets and cache deactivation
against every built-in function family, compared with an un-cached twin (values), a dict+set reference cache
(counter) and - as a stateless side-oracle counted separately - tensor Gauss-Legendre quadrature split at the
families' known kinks (analytic integrals). Real code throughout; the 'environment' is the caller."""
import copy, itertools, math
import numpy as np
from simcore.runner import Check
from simcore.ctx import Excluded
from simcore.seeds import stream

FAMILIES = ["ConstantValue", "FunctionLinear", "FunctionMultilinear", "FunctionPolynomial", "Polynomial1d", "GenzCornerPeak",
            "GenzProductPeak", "GenzOszillatory", "GenzDiscontinious", "GenzDiscontinious2", "GenzC0", "GenzGaussian",
            "FunctionExpVar", "FunctionG", "FunctionDiagonalDiscont", "FunctionShift", "FunctionCompose", "FunctionConcatenate",
            "FunctionPower", "CustomFunction", "FunctionCustom", "LambdaFunction",
            # driven for the evaluation / cache clauses only (their analytic integrals are numerical quadrature themselves, not
            # implemented, or marked incorrect by the source)
            "FunctionUQ", "FunctionUQShifted", "FunctionUQ2", "FunctionGShifted", "FunctionCantileverBeamD", "FunctionGeneralizedNormal",
            "FunctionUQNormal", "FunctionUQNormal2", "FunctionUQWeighted", "FunctionInverseTransform"]
EVAL_ONLY = {"FunctionUQ", "FunctionUQShifted", "FunctionUQ2", "FunctionGShifted", "FunctionCantileverBeamD", "FunctionGeneralizedNormal",
             "FunctionUQNormal", "FunctionUQNormal2", "FunctionUQWeighted", "FunctionInverseTransform"}
NO_INTEGRAL = {"FunctionConcatenate", "FunctionPower", "CustomFunction", "FunctionCustom"} | EVAL_ONLY


def rc(r, lo, hi, nd=2):
    return round(r.uniform(lo, hi), nd)


def gen_spec(r, fam=None, depth=0):
    fam = fam or r.choice(FAMILIES)
    dim = 1 if fam == "Polynomial1d" else r.choice([1, 2, 2, 3, 3, 4])
    if fam in ("FunctionUQ", "FunctionUQShifted", "FunctionCantileverBeamD"):
        return [fam, 3, {}]
    if fam == "FunctionUQ2":
        return [fam, 2, {}]
    if fam == "FunctionGShifted":
        return [fam, dim, {"dim": dim}]
    if fam == "FunctionGeneralizedNormal":
        return [fam, dim, {"midpoints": [rc(r, 0.0, 1.0) for _ in range(dim)], "coefficients": [rc(r, 0.3, 3) for _ in range(dim)], "exp": r.choice([1, 3])}]
    if fam in ("FunctionUQNormal", "FunctionUQNormal2", "FunctionUQWeighted", "FunctionInverseTransform"):
        # FunctionInverseTransform forwards the wrapped function's output length; the three UQ wrappers are scalar by design
        inner = gen_spec(r, r.choice(["FunctionPolynomial", "GenzOszillatory", "GenzGaussian", "FunctionLinear", "GenzC0"] +
                                     (["GenzDiscontinious2"] * 2 if fam == "FunctionInverseTransform" else [])))
        d = inner[1]
        p = {"inner": inner, "mean": [rc(r, -0.5, 0.5) for _ in range(d)], "std": [rc(r, 0.3, 1.5) for _ in range(d)]}
        if fam == "FunctionUQWeighted":
            p["weight"] = gen_spec(r, "GenzGaussian")
            p["weight"] = _with_dim(r, p["weight"], d)
        return [fam, d, p]
    if fam == "ConstantValue":
        return [fam, dim, {"value": rc(r, -3, 3)}]
    if fam in ("FunctionLinear", "FunctionMultilinear"):
        return [fam, dim, {"coeffs": [rc(r, -2, 2) or 0.5 for _ in range(dim)]}]
    if fam == "FunctionPolynomial":
        return [fam, dim, {"coeffs": [rc(r, -2, 2) or 0.5 for _ in range(dim)], "degree": r.choice([1, 2, 3, 4])}]
    if fam == "Polynomial1d":
        return [fam, 1, {"coefficients": [rc(r, -2, 2) for _ in range(r.randint(1, 5))]}]
    if fam == "GenzCornerPeak":
        return [fam, dim, {"coeffs": [rc(r, 0.2, 3) for _ in range(dim)]}]
    if fam == "GenzProductPeak":
        return [fam, dim, {"coefficients": [rc(r, 0.5, 4) for _ in range(dim)], "midpoint": [rc(r, 0.1, 0.9) for _ in range(dim)]}]
    if fam == "GenzOszillatory":
        return [fam, dim, {"coeffs": [r.choice([0.0, rc(r, 0.3, 4), rc(r, -4, -0.3)]) if r.random() < 0.25 else rc(r, 0.3, 4) for _ in range(dim)],
                           "offset": rc(r, 0, 1)}]
    if fam in ("GenzDiscontinious", "GenzDiscontinious2"):
        return [fam, dim, {"coeffs": [rc(r, 0.3, 3) for _ in range(dim)], "border": [rc(r, 0.2, 1.2) for _ in range(dim)]}]
    if fam == "GenzC0":
        return [fam, dim, {"coeffs": [rc(r, 0.3, 3) for _ in range(dim)], "midpoint": [rc(r, -0.2, 1.2) for _ in range(dim)]}]
    if fam == "GenzGaussian":
        return [fam, dim, {"midpoint": [rc(r, 0.0, 1.0) for _ in range(dim)], "coefficients": [rc(r, 0.3, 4) for _ in range(dim)]}]
    if fam in ("FunctionExpVar", "FunctionDiagonalDiscont"):
        return [fam, dim, {}]
    if fam == "FunctionG":
        return [fam, dim, {"dim": dim}]
    base_fams = ["FunctionLinear", "FunctionPolynomial", "GenzOszillatory", "GenzGaussian", "GenzC0", "ConstantValue", "GenzProductPeak"]
    if fam == "FunctionShift":
        inner = gen_spec(r, r.choice(["FunctionPolynomial", "GenzOszillatory", "GenzGaussian", "FunctionLinear", "GenzDiscontinious", "GenzC0", "FunctionMultilinear"]))
        return [fam, inner[1], {"inner": inner, "shift": [rc(r, -1, 1) for _ in range(inner[1])]}]
    if fam == "FunctionCompose":
        # every scalar family with an analytic integral valid on [0,1]^d can be a component; the order of the components is
        # part of the schedule (a component must not disturb what the later ones see)
        comp_fams = base_fams + ["GenzDiscontinious", "GenzDiscontinious", "GenzCornerPeak", "FunctionMultilinear"]
        first = gen_spec(r, r.choice(comp_fams))
        parts = [first]
        for _ in range(r.randint(0, 2)):
            p = gen_spec(r, r.choice(comp_fams))
            p = _with_dim(r, p, first[1])
            parts.append(p)
        return [fam, first[1], {"parts": parts, "factors": [rc(r, -2, 2) for _ in parts]}]
    if fam == "FunctionConcatenate":
        first = gen_spec(r, r.choice(base_fams + ["GenzDiscontinious2"]))
        parts = [first] + [_with_dim(r, gen_spec(r, r.choice(base_fams + ["GenzDiscontinious2"])), first[1]) for _ in range(r.randint(1, 2))]
        return [fam, first[1], {"parts": parts}]
    if fam == "FunctionPower":
        inner = gen_spec(r, r.choice(base_fams + ["GenzDiscontinious2"]))
        return [fam, inner[1], {"inner": inner, "exponent": r.choice([1, 2, 3])}]
    if fam == "CustomFunction":
        return [fam, dim, {"n": r.choice([1, 2, 3]), "w": [rc(r, -2, 2) for _ in range(dim)]}]
    if fam == "FunctionCustom":
        return [fam, dim, {"n": r.choice([0, 1, 2, 3]), "w": [rc(r, -2, 2) for _ in range(dim)]}]
    if fam == "LambdaFunction":
        return [fam, 1, {"c": [rc(r, -2, 2) for _ in range(3)]}]
    raise ValueError(fam)


def _with_dim(r, spec, dim):
    """regenerate a spec of the same family with the wanted dimension"""
    for _ in range(200):
        if spec[1] == dim:
            return spec
        spec = gen_spec(r, spec[0])
    raise ValueError("cannot match dim")


def build(spec):
    import sparseSpACE.Function as F
    fam, dim, p = spec
    if fam == "ConstantValue":
        return F.ConstantValue(p["value"])
    if fam in ("FunctionLinear", "FunctionMultilinear", "GenzCornerPeak"):
        return getattr(F, fam)(list(p["coeffs"]))
    if fam == "FunctionPolynomial":
        return F.FunctionPolynomial(list(p["coeffs"]), p["degree"])
    if fam == "Polynomial1d":
        return F.Polynomial1d(list(p["coefficients"]))
    if fam == "GenzProductPeak":
        return F.GenzProductPeak(list(p["coefficients"]), list(p["midpoint"]))
    if fam == "GenzOszillatory":
        return F.GenzOszillatory(list(p["coeffs"]), p["offset"])
    if fam in ("GenzDiscontinious", "GenzDiscontinious2"):
        return getattr(F, fam)(coeffs=np.array(p["coeffs"]), border=np.array(p["border"]))
    if fam == "GenzC0":
        return F.GenzC0(np.array(p["coeffs"]), np.array(p["midpoint"]))
    if fam == "GenzGaussian":
        return F.GenzGaussian(np.array(p["midpoint"]), np.array(p["coefficients"]))
    if fam == "FunctionExpVar":
        return F.FunctionExpVar()
    if fam == "FunctionDiagonalDiscont":
        return F.FunctionDiagonalDiscont()
    if fam == "FunctionG":
        return F.FunctionG(p["dim"])
    if fam in ("FunctionUQ", "FunctionUQShifted", "FunctionUQ2", "FunctionCantileverBeamD"):
        return getattr(F, fam)()
    if fam == "FunctionGShifted":
        return F.FunctionGShifted(p["dim"])
    if fam == "FunctionGeneralizedNormal":
        return F.FunctionGeneralizedNormal(list(p["midpoints"]), list(p["coefficients"]), p["exp"])
    if fam in ("FunctionUQNormal", "FunctionUQNormal2"):
        return getattr(F, fam)(build(p["inner"]), list(p["mean"]), list(p["std"]), [-2.0] * dim, [2.0] * dim)
    if fam == "FunctionUQWeighted":
        return F.FunctionUQWeighted(build(p["inner"]), build(p["weight"]))
    if fam == "FunctionInverseTransform":
        import scipy.stats as st
        return F.FunctionInverseTransform(build(p["inner"]), [st.norm(loc=m, scale=sd) for m, sd in zip(p["mean"], p["std"])])
    if fam == "FunctionShift":
        sh = list(p["shift"])
        return F.FunctionShift(build(p["inner"]), lambda c, sh=sh: [c[d] + sh[d] for d in range(len(sh))])
    if fam == "FunctionCompose":
        return F.FunctionCompose([(build(s), fac) for s, fac in zip(p["parts"], p["factors"])])
    if fam == "FunctionConcatenate":
        return F.FunctionConcatenate([build(s) for s in p["parts"]])
    if fam == "FunctionPower":
        return F.FunctionPower(build(p["inner"]), p["exponent"])
    if fam == "CustomFunction":
        w, n = list(p["w"]), p["n"]
        return F.CustomFunction(lambda x, w=w, n=n: [math.sin(sum(wi * xi for wi, xi in zip(w, x)) + j) for j in range(n)], output_length=n)
    if fam == "FunctionCustom":
        w, n = list(p["w"]), p["n"]
        if n == 0:
            return F.FunctionCustom(lambda x, w=w: math.cos(sum(wi * xi for wi, xi in zip(w, x))))
        return F.FunctionCustom([(lambda x, w=w, j=j: math.cos(sum(wi * xi for wi, xi in zip(w, x)) + j)) for j in range(n)])
    if fam == "LambdaFunction":
        c = list(p["c"])
        return F.LambdaFunction(lambda x, c=c: c[0] + c[1] * x[0] + c[2] * x[0] ** 2,
                                lambda x, c=c: c[0] * x[0] + c[1] * x[0] ** 2 / 2 + c[2] * x[0] ** 3 / 3)
    raise ValueError(fam)


def out_len(spec):
    fam, dim, p = spec
    if fam == "GenzDiscontinious2":
        return 2
    if fam == "FunctionConcatenate":
        return sum(out_len(s) for s in p["parts"])
    if fam == "FunctionPower":
        return out_len(p["inner"])
    if fam in ("FunctionUQNormal", "FunctionUQNormal2", "FunctionInverseTransform"):
        return out_len(p["inner"])
    if fam == "FunctionCantileverBeamD":
        return 2
    if fam == "CustomFunction":
        return p["n"]
    if fam == "FunctionCustom":
        return max(1, p["n"])
    return 1


def domain(spec):
    """box in which the family is defined / its analytic integral is valid"""
    fam, dim, p = spec
    if fam in ("FunctionG", "FunctionDiagonalDiscont", "FunctionGShifted"):
        return [0.0] * dim, [1.0] * dim, True        # integral only on the unit cube
    if fam == "FunctionCantileverBeamD":
        return [0.5] * dim, [3.0] * dim, False       # physical parameters: positive
    if fam == "FunctionInverseTransform":
        return [0.05] * dim, [0.95] * dim, False     # quantiles strictly inside (0, 1)
    if fam in ("FunctionUQNormal", "FunctionUQNormal2", "FunctionUQWeighted"):
        return [0.0] * dim, [1.0] * dim, False
    if fam in ("FunctionExpVar", "GenzCornerPeak"):
        return [0.0] * dim, [1.5] * dim, False
    if fam == "FunctionShift":
        return [-1.0] * dim, [1.0] * dim, False
    if fam in ("FunctionCompose", "FunctionConcatenate", "FunctionPower"):
        return [0.0] * dim, [1.0] * dim, False
    return [-0.5] * dim, [1.5] * dim, False


def kinks(spec, d):
    fam, dim, p = spec
    if fam in ("GenzDiscontinious", "GenzDiscontinious2"):
        return [p["border"][d]]
    if fam == "GenzC0":
        return [p["midpoint"][d]]
    if fam == "GenzProductPeak":
        return [p["midpoint"][d]]
    if fam == "GenzGaussian":
        return [p["midpoint"][d]]
    if fam == "FunctionG":
        return [0.5]
    if fam == "FunctionShift":
        return [k - p["shift"][d] for k in kinks(p["inner"], d)]
    if fam == "FunctionCompose":
        return [k for s in p["parts"] for k in kinks(s, d)]
    return []


_GL = {}


def gauss_legendre(f, a, b, spec, n=14):
    """tensor Gauss-Legendre on the pieces between the family's kinks"""
    if n not in _GL:
        _GL[n] = np.polynomial.legendre.leggauss(n)
    x, w = _GL[n]
    dim = len(a)
    pieces = []
    for d in range(dim):
        cuts = sorted(set([a[d], b[d]] + [k for k in kinks(spec, d) if a[d] < k < b[d]]))
        pieces.append(list(zip(cuts, cuts[1:])))
    tot = None
    for combo in itertools.product(*pieces):
        nodes = [0.5 * (lo + hi) + 0.5 * (hi - lo) * x for lo, hi in combo]
        wts = [0.5 * (hi - lo) * w for lo, hi in combo]
        for idx in itertools.product(range(n), repeat=dim):
            p = tuple(float(nodes[d][idx[d]]) for d in range(dim))
            ww = 1.0
            for d in range(dim):
                ww *= wts[d][idx[d]]
            v = np.atleast_1d(np.asarray(f.eval(p), dtype=float)) * ww
            tot = v if tot is None else tot + v
    return tot


def midpoint_rule(f, a, b):
    """plain midpoint rule for the one family whose discontinuity is not axis parallel (coarse, hence a wide tolerance)"""
    dim = len(a)
    n = {1: 400, 2: 60, 3: 30, 4: 14}[dim]
    tot = 0.0
    cell = 1.0
    for d in range(dim):
        cell *= (b[d] - a[d]) / n
    for idx in itertools.product(range(n), repeat=dim):
        p = tuple(a[d] + (b[d] - a[d]) * (idx[d] + 0.5) / n for d in range(dim))
        tot = tot + np.atleast_1d(np.asarray(f.eval(p), dtype=float))
    return tot * cell


class C12(Check):
    pid = "C12"
    runs = {"quick": 8000, "thorough": 100000}
    budget_s = {"quick": 80.0, "thorough": 800.0}
    block = 50
    run_timeout_s = 240.0      # wall-clock guard only (the quadrature cost of a run is bounded by the generator); generous because the machine may be loaded
    fixed_prefix = 0
    real = ["sparseSpACE.Function: every built-in class and wrapper named in engines/function_sim.py (call path, cache, vectorised overrides, analytic integrals)"]
    stub = ["none: the environment is the caller issuing the operation sequence"]
    rule = ("schedule = function family + seeded parameters + a history of <= 30 operations: single call, batch call (with duplicates, with "
            "previously seen points, the empty batch, calls whose coordinates are all integer-typed), eval_vectorized on 2-D and 3-D arrays, reset_dictionary, deactivate_caching, a second object of the same class taking turns (foreign activity), size / "
            "points / values queries. Every returned value is compared with eval of an un-cached twin instance, shapes with (#points, "
            "output_length), the evaluation counter with a dict+set reference cache while caching is on. A state is (family, cache key set, "
            "caching flag); distinct_nontrivial counts distinct states after an operation. Analytic integrals are a stateless side-oracle "
            "(counted under pure_side_oracle_evaluations): analytic integral over seeded boxes vs tensor Gauss-Legendre split at the family's kinks")
    expected_probes = ["empty_batch", "cache_off_single", "batch_with_duplicates", "reset", "cached_hit", "vectorized_3d", "integer_typed_coordinates"]
    excluded_configs = ["FunctionGeneralizedNormal (the source marks its analytic solution as incorrect)",
                        "families whose analytic integral is itself numerical quadrature (Function base class, FunctionUQ, FunctionUQ2) or needs chaospy distributions (FunctionUQNormal*, FunctionUQWeighted, FunctionInverseTransform, FunctionPolysPCE)",
                        "FunctionCantileverBeamD (no integral; fixed 3-D physics model)"]
    assumptions = ["vectorised and scalar implementations may differ by rounding: values are compared to 1e-12 relative",
                   "the counter clause is judged only while caching has not been deactivated since the last reset"]

    def setup(self):
        import sparseSpACE.Function  # noqa

    def gen(self, rk, tier, idx):
        r = stream(rk, "cfg")
        fam = FAMILIES[idx % len(FAMILIES)] if idx < 4 * len(FAMILIES) else None
        spec = gen_spec(r, fam)
        dim = spec[1]
        a, b, unit_only = domain(spec)
        o = stream(rk, "ops")
        pool = [[round(a[d] + (b[d] - a[d]) * o.choice([0.0, 0.125, 0.25, 0.5, 0.75, 1.0, o.random()]), 6) for d in range(dim)] for _ in range(8)]
        # points lying exactly on the family's kinks / discontinuities in some coordinates (where a scalar and a
        # vectorised implementation may draw the line differently)
        for k in range(4):
            q = list(pool[k])
            for d in range(dim):
                ks = [x for x in kinks(spec, d) if a[d] <= x <= b[d]]
                if ks and o.random() < 0.6:
                    q[d] = float(o.choice(ks))
            pool.append(q)

        def pt():
            return o.choice(pool) if o.random() < 0.6 else [round(a[d] + (b[d] - a[d]) * o.random(), 6) for d in range(dim)]
        # integer lattice points of the domain: a caller may well write box corners as Python ints or hand over an integer
        # ndarray; a whole batch of them is the only way an implementation sees integer-typed coordinates
        lat = [[v for v in range(int(np.ceil(a[d] - 1e-12)), int(np.floor(b[d] + 1e-12)) + 1)] for d in range(dim)]
        has_lat = all(lat)
        ityped = has_lat and o.random() < 0.5

        def ipt():
            return [float(o.choice(lat[d])) for d in range(dim)]
        ops = []
        w = {"single": o.choice([1, 3, 5]), "batch": o.choice([1, 3, 5]), "vec2d": o.choice([0, 1, 2]), "vec3d": o.choice([0, 1]),
             "reset": o.choice([0, 1, 1]), "cache_off": o.choice([0, 0, 1]), "query": o.choice([0, 1]), "foreign": o.choice([0, 0, 1])}
        kinds = [k for k, v in w.items() for _ in range(v)]
        for _ in range(o.randint(1, 30 if tier == "quick" else 50)):
            k = o.choice(kinds)
            if ityped and k in ("single", "batch", "vec2d", "vec3d") and o.random() < 0.3:
                if k == "single":
                    ops.append(["single", ipt(), o.choice(["tuple", "list", "array"]), "int"])
                elif k == "batch":
                    ops.append(["batch", [ipt() for _ in range(o.choice([1, 2, 3, 5]))], "int"])
                elif k == "vec2d":
                    ops.append(["vec2d", [ipt() for _ in range(o.choice([1, 2, 5]))], "int"])
                else:
                    ops.append(["vec3d", [[ipt() for _ in range(2)] for _ in range(o.choice([1, 2]))], "int"])
            elif k == "single":
                ops.append(["single", pt(), o.choice(["tuple", "list", "array"])])
            elif k == "batch":
                n = o.choice([0, 1, 2, 3, 5, 8, 20])
                pts = [pt() for _ in range(n)]
                if pts and o.random() < 0.4:
                    pts += [o.choice(pts) for _ in range(o.randint(1, 3))]
                ops.append(["batch", pts])
            elif k == "vec2d":
                ops.append(["vec2d", [pt() for _ in range(o.choice([1, 2, 5, 9]))]])
            elif k == "vec3d":
                ncol = o.choice([1, 3])
                ops.append(["vec3d", [[pt() for _ in range(ncol)] for _ in range(o.choice([1, 2, 4]))]])
            elif k == "foreign":
                # another live object of the same family (other parameters) is evaluated at points this object has seen or will see
                ops.append(["foreign", [pt() for _ in range(o.choice([1, 3, 6]))], o.choice(["batch", "single", "reset"])])
            else:
                ops.append([k])
        nb = 0 if (spec[0] in NO_INTEGRAL or (spec[0] == "FunctionDiagonalDiscont" and dim > 3)) else o.choice([1, 1, 2])
        boxes = []
        for _ in range(nb):
            if unit_only:
                boxes.append([a, b])
            else:
                lo = [round(a[d] + (b[d] - a[d]) * o.uniform(0.0, 0.6), 3) for d in range(dim)]
                boxes.append([lo, [round(lo[d] + (b[d] - lo[d]) * o.uniform(0.2, 1.0), 3) for d in range(dim)]])
        # the reference quadrature costs 14^dim evaluations per piece between kinks: boxes beyond the budget are left out
        def cost(box):
            c = 14.0 ** dim
            for d in range(dim):
                c *= 1 + len(set(k for k in kinks(spec, d) if box[0][d] < k < box[1][d]))
            return c
        boxes = [bx for bx in boxes if spec[0] == "FunctionDiagonalDiscont" or cost(bx) <= 3e5]
        return {"config": {"spec": spec, "boxes": boxes}, "ops": ops}

    def simplify(self, s):
        for i, op in enumerate(s["ops"]):
            if op[0] == "batch" and len(op[1]) > 1:
                n = copy.deepcopy(s); n["ops"][i][1] = op[1][:len(op[1]) // 2]; yield n
            if op[0] == "single" and op[2] != "tuple":
                n = copy.deepcopy(s); n["ops"][i][2] = "tuple"; yield n
        if len(s["config"]["boxes"]) > 1:
            n = copy.deepcopy(s); n["config"]["boxes"] = s["config"]["boxes"][:1]; yield n

    def execute(self, sched, ctx):
        spec = sched["config"]["spec"]
        fam, dim, _ = spec
        sig = {"family": fam}
        ctx.exc_sig = {"family": fam}
        f = build(spec)
        twin = build(spec)
        nout = out_len(spec)
        declared = f.output_length()
        if declared != nout:
            ctx.violate("declared_output_length", sig, "%s declares output_length %d, eval returns %d values" % (fam, declared, nout))
        model = set()
        cache_on = True
        counter_armed = True
        foreign = None

        def ref(p):
            return np.atleast_1d(np.asarray(twin.eval(tuple(p)), dtype=float)).reshape(-1)

        def cmp(got, pts, what):
            got = np.asarray(got, dtype=float)
            if got.size != len(pts) * nout:
                ctx.violate("result_shape", dict(sig, op=what), "%s on %d points returns shape %s, expected (%d, %d)" % (what, len(pts), got.shape, len(pts), nout))
            if what in ("batch", "single") and got.shape != ((len(pts), nout) if what == "batch" else (nout,)):
                ctx.violate("result_shape", dict(sig, op=what), "%s on %d points returns shape %s, expected %s" % (what, len(pts), got.shape, (len(pts), nout) if what == "batch" else (nout,)))
            g = got.reshape(len(pts), nout) if len(pts) else got.reshape(0, nout)
            for i, p in enumerate(pts):
                w = ref(p)
                if not np.all(np.abs(g[i] - w) <= 1e-12 * (1.0 + np.abs(w))):
                    ctx.violate("value_equals_uncached_twin", dict(sig, op=what), "%s at %s returns %s, un-cached twin %s" % (what, p, g[i].tolist(), w.tolist()))
            ctx.ok("value_equals_uncached_twin", len(pts))

        for op in sched["ops"]:
            ctx.step()
            k = op[0]
            ityp = op[-1] == "int"                 # every coordinate of this call is handed over integer-typed
            num = (lambda x: int(x)) if ityp else (lambda x: x)
            dt = int if ityp else float
            if ityp:
                ctx.probe("integer_typed_coordinates")
            if k == "single":
                p = op[1]
                arg = tuple(map(num, p)) if op[2] == "tuple" else (list(map(num, p)) if op[2] == "list" else np.array(p, dtype=dt))
                if tuple(p) in model and cache_on:
                    ctx.probe("cached_hit")
                if not cache_on:
                    ctx.probe("cache_off_single"); ctx.fault("cache_event")
                cmp(f(arg), [p], "single")
                if cache_on:
                    model.add(tuple(float(x) for x in p))
            elif k == "batch":
                pts = op[1]
                if not pts:
                    ctx.probe("empty_batch"); ctx.fault("cache_event")
                if len(set(map(tuple, pts))) < len(pts):
                    ctx.probe("batch_with_duplicates"); ctx.fault("cache_event")
                cmp(f([tuple(map(num, p)) for p in pts]), pts, "batch")
                for p in pts:
                    model.add(tuple(float(x) for x in p))
            elif k == "vec2d":
                pts = op[1]
                cmp(f.eval_vectorized(np.array(pts, dtype=dt)), pts, "vec2d")
            elif k == "vec3d":
                rows = op[1]
                flat = [p for row in rows for p in row]
                ctx.probe("vectorized_3d")
                cmp(f.eval_vectorized(np.array(rows, dtype=dt)), flat, "vec3d")
            elif k == "foreign":
                # foreign activity: a second object of the same class with its own parameters and its own cache takes a turn;
                # nothing it evaluates, caches or resets may show in this object's values or counter
                if foreign is None:
                    try:
                        rr = stream(sched["rk"], "foreign_spec")
                        foreign = build(_with_dim(rr, gen_spec(rr, fam), dim))
                    except Exception:
                        foreign = False
                if foreign:
                    ctx.probe("foreign_object_took_a_turn"); ctx.fault("foreign_activity")
                    try:
                        if op[2] == "batch":
                            foreign([tuple(p) for p in op[1]])
                        elif op[2] == "single":
                            for p in op[1]:
                                foreign(tuple(p))
                        else:
                            foreign([tuple(p) for p in op[1]]); foreign.reset_dictionary()
                    except Exception as e:
                        if getattr(e, "harness", False):
                            raise
                        foreign = False      # the foreign object's own troubles (its parameters, its domain) are not this run's subject
            elif k == "reset":
                f.reset_dictionary()
                model = set()
                counter_armed = cache_on
                ctx.probe("reset"); ctx.fault("cache_event")
            elif k == "cache_off":
                f.deactivate_caching()
                cache_on = False
                counter_armed = False
                ctx.fault("cache_event")
            elif k == "query":
                n = f.get_f_dict_size()
                if len(f.get_f_dict_points()) != n or len(f.get_f_dict_values()) != n:
                    ctx.violate("cache_queries_consistent", sig, "size %d, %d points, %d values" % (n, len(f.get_f_dict_points()), len(f.get_f_dict_values())))
            if counter_armed:
                n = f.get_f_dict_size()
                if n != len(model):
                    ctx.violate("evaluation_counter", dict(sig, op=k), "after %s the counter is %d, distinct points evaluated since the last reset: %d" % (k, n, len(model)))
                ctx.ok("evaluation_counter")
            ctx.ev(k, len(model), cache_on)
            ctx.state((fam, tuple(sorted(model))[:40], cache_on))
        # ---- stateless side-oracle: analytic integral vs quadrature
        for (lo, hi) in sched["config"]["boxes"]:
            an = f.getAnalyticSolutionIntegral(np.array(lo, dtype=float), np.array(hi, dtype=float))
            ctx.side["analytic_integral"] += 1
            if an is None:
                ctx.violate("analytic_integral", sig, "%s.getAnalyticSolutionIntegral(%s, %s) returns None" % (fam, lo, hi))
                continue
            num = midpoint_rule(twin, lo, hi) if fam == "FunctionDiagonalDiscont" else gauss_legendre(twin, lo, hi, spec)
            an = np.atleast_1d(np.asarray(an, dtype=float)).reshape(-1)
            if an.size == 1 and num.size > 1:
                an = np.broadcast_to(an, num.shape)     # a scalar zero for a vector-valued family is the same value
            scale = float(np.max(np.abs(num))) + 1e-3 * float(np.prod(np.array(hi) - np.array(lo)))
            tol = {"FunctionDiagonalDiscont": 0.12, "FunctionExpVar": 2e-2}.get(fam, 1e-7) * max(scale, 1e-12)
            if an.shape != num.shape or not np.all(np.abs(an - num) <= tol):
                ctx.violate("analytic_integral", sig, "%s over [%s, %s]: analytic %s, quadrature %s (tol %.1e); parameters %s" % (
                    fam, lo, hi, an.tolist(), num.tolist(), tol, spec[2]))


CHECKS = {"C12": C12}
