"""C01 - adaptive combination scheme under arbitrary request histories.

System under test: the real CombiScheme (no stub). The seed schedules init / update / query
requests, including requests the API must refuse or ignore (invalid_request fault kind) and
re-initialisation in the middle of a history. Oracles are the model-free invariants of the
statement; the inclusion-exclusion coefficients are recomputed by Moebius inversion of the
library's own index set (R-scheme) and, independently, by the dominance sums of the statement.
"""
import itertools
from simcore.runner import Check
from simcore.seeds import stream


def _combos():
    out = []
    for d in range(1, 6):
        for lmin in range(0, 4):
            for diff in range(0, 5):
                out.append((d, lmin, lmin + diff))
    return out


COMBOS = _combos()
ARGKINDS = ["list", "tuple", "array"]


class C01(Check):
    pid = "C01"
    runs = {"quick": 30000, "thorough": 400000}
    budget_s = {"quick": 50.0, "thorough": 600.0}
    run_timeout_s = 60.0
    block = 100
    rule = ("schedule = seeded list of init/update/query requests against one CombiScheme (d<=5, lmin<=3, "
            "lmax-lmin<=4, <=40 ops; first 100 runs walk the (d,lmin,lmax) grid) and closed-form requests with varying levels against one long-lived non-adaptive object; update arguments by class: active "
            "index by rank, old index, inadmissible forward neighbour, arbitrary vector, below-lmin vector, same "
            "request again; passed as list/tuple/ndarray. A state is the pair (old set, active set); "
            "distinct_nontrivial counts distinct states over all steps of all runs that differ from the run's "
            "freshly initialised state")
    real = ["sparseSpACE.combiScheme.CombiScheme", "sparseSpACE.Utils.get_cross_product"]
    stub = []
    assumptions = ["exploration by seeded sampling: a clean batch is evidence about the explored histories only",
                   "coefficients are compared exactly (integers)"]
    expected_probes = ["update_refined", "update_refused", "lmax_adaptive_raised", "reinit", "neighbour_inadmissible",
                       "closed_form_checked", "closed_form_repeated_request"]

    def setup(self):
        import numpy  # noqa
        from sparseSpACE.combiScheme import CombiScheme  # noqa
        self.CombiScheme = CombiScheme

    # ---------------------------------------------------------------- schedule
    def gen(self, rk, tier, idx):
        r = stream(rk, "cfg")
        if idx < len(COMBOS):
            d, lmin, lmax = COMBOS[idx]
        else:
            d = r.choice([1, 2, 2, 3, 3, 3, 4, 4, 5])
            lmin = r.choice([0, 1, 1, 1, 2, 2, 3])
            lmax = lmin + r.choice([0, 1, 1, 2, 2, 3, 4])
        o = stream(rk, "ops")
        nops = o.randint(1, 40 if tier == "quick" else 60)
        # per-run swarm weights
        w = {"active": o.choice([1, 3, 6, 10]), "old": o.choice([0, 1, 2]), "inadm": o.choice([0, 1, 2]),
             "outside": o.choice([0, 1, 2]), "below": o.choice([0, 1]), "again": o.choice([0, 1, 2]),
             "query": o.choice([0, 1, 3]), "reinit": o.choice([0, 0, 0, 1]), "closed": o.choice([0, 0, 1, 2])}
        kinds = [k for k, v in w.items() for _ in range(v)]
        ops = [["init", lmax, lmin]]
        for _ in range(nops):
            k = o.choice(kinds)
            if k == "reinit":
                lm = o.choice([0, 1, 2, 3])
                ops.append(["init", lm + o.choice([0, 1, 2, 3]), lm])
            elif k == "closed":
                # a further closed-form request to the run's long-lived non-adaptive object (repeated requests with other levels)
                lm = o.choice([0, 1, 2, 3])
                ops.append(["closed", lm + o.choice([0, 1, 1, 2, 3]), lm])
            elif k == "query":
                ops.append(["query", o.choice(["is_refinable", "in_index_set", "is_old_index", "has_forward_neighbour",
                                               "extendable_level"]), o.randrange(10 ** 6)])
            elif k in ("outside", "below"):
                ops.append(["update", k, [o.randrange(0, 9) for _ in range(d)], o.choice(ARGKINDS)])
            elif k == "again":
                ops.append(["update", "again", 0, o.choice(ARGKINDS)])
            else:
                ops.append(["update", k, o.randrange(10 ** 6), o.choice(ARGKINDS)])
        return {"config": {"dim": d}, "ops": ops}

    fixed_prefix = 1

    def simplify(self, s):
        ops = s["ops"]
        for i, op in enumerate(ops):
            if op[0] == "update" and op[3] != "list":
                c = _cp(s); c["ops"][i][3] = "list"; yield c
            if op[0] == "update" and op[1] in ("active", "old", "inadm") and op[2] != 0:
                c = _cp(s); c["ops"][i][2] = 0; yield c
                c = _cp(s); c["ops"][i][2] = op[2] % 7; yield c
            if op[0] == "init":
                if op[1] > op[2]:
                    c = _cp(s); c["ops"][i][1] -= 1; yield c
                if op[2] > 0:
                    c = _cp(s); c["ops"][i][1] -= 1; c["ops"][i][2] -= 1; yield c
        if s["config"]["dim"] > 1:
            c = _cp(s); c["config"]["dim"] -= 1
            for op in c["ops"]:
                if op[0] == "update" and isinstance(op[2], list):
                    op[2] = op[2][:c["config"]["dim"]]
            yield c

    # ---------------------------------------------------------------- execution
    def execute(self, sched, ctx):
        import numpy as np
        d = sched["config"]["dim"]
        cs = self.CombiScheme(d)
        cf = self.CombiScheme(d)        # never initialised adaptively: answers closed-form requests throughout the run
        last = None
        lmin = None
        for op in sched["ops"]:
            ctx.step()
            if op[0] == "closed":
                _, cmax, cmin = op
                ref = self.CombiScheme(d)
                ref.init_adaptive_combi_scheme(cmax, cmin)
                m2 = _as_map(ref.getCombiScheme(do_print=False), ctx, "adaptive", d)
                m3 = _as_map(cf.getCombiScheme(cmin, cmax, do_print=False), ctx, "closed_form", d)
                ctx.ev("closed", cmax, cmin)
                ctx.probe("closed_form_repeated_request")
                if m3 != m2:
                    ctx.violate("closed_form_equals_adaptive", {"dim": d, "object": "reused"},
                                "d=%d lmin=%d lmax=%d: closed form of a non-adaptive object that answered other requests before = %s, freshly initialised adaptive scheme = %s" % (
                                    d, cmin, cmax, sorted(m3.items()), sorted(m2.items())))
                ctx.ok("closed_form_equals_adaptive")
                continue
            if op[0] == "init":
                _, lmax, lmin = op
                # closed form of an un-initialised scheme vs the freshly initialised adaptive one
                closed = self.CombiScheme(d).getCombiScheme(lmin, lmax, do_print=False)
                if cs.initialized_adaptive:
                    ctx.probe("reinit"); ctx.fault("reinit")
                cs.init_adaptive_combi_scheme(lmax, lmin)
                ctx.ev("init", lmax, lmin)
                ad = cs.getCombiScheme(do_print=False)
                m1 = _as_map(closed, ctx, "closed_form", d)
                m2 = _as_map(ad, ctx, "adaptive", d)
                ctx.probe("closed_form_checked")
                if m1 != m2:
                    ctx.violate("closed_form_equals_adaptive", {"dim": d},
                                "d=%d lmin=%d lmax=%d closed=%s adaptive=%s" % (d, lmin, lmax, sorted(m1.items()), sorted(m2.items())))
                m3 = _as_map(cf.getCombiScheme(lmin, lmax, do_print=False), ctx, "closed_form", d)
                if m3 != m2:
                    ctx.violate("closed_form_equals_adaptive", {"dim": d, "object": "reused"},
                                "d=%d lmin=%d lmax=%d: closed form of a non-adaptive object that answered other requests before = %s, adaptive = %s" % (
                                    d, lmin, lmax, sorted(m3.items()), sorted(m2.items())))
                ctx.ok("closed_form_equals_adaptive")
            elif op[0] == "update":
                _, kind, arg, how = op
                active = sorted(tuple(int(x) for x in t) for t in cs.active_index_set)
                old = sorted(tuple(int(x) for x in t) for t in cs.old_index_set)
                lv = None
                if kind == "active" and active:
                    lv = active[arg % len(active)]
                elif kind == "old" and old:
                    lv = old[arg % len(old)]
                elif kind == "inadm":
                    I = set(active) | set(old)
                    cands = []
                    for a in active:
                        for k in range(d):
                            f = list(a); f[k] += 1; f = tuple(f)
                            if f not in I:
                                cands.append(f)
                    if cands:
                        lv = sorted(cands)[arg % len(cands)]
                elif kind == "outside":
                    lv = tuple(arg)
                elif kind == "below":
                    lv = tuple(min(x, max(lmin - 1, 0)) if i == 0 else x for i, x in enumerate(arg))
                elif kind == "again":
                    lv = last
                if lv is None:
                    continue
                last = lv
                passed = list(lv) if how == "list" else (tuple(lv) if how == "tuple" else np.array(lv, dtype=int))
                was_active = tuple(lv) in set(active)
                before = (set(old), set(active), cs.lmax_adaptive)
                ret = cs.update_adaptive_combi(passed)
                ctx.ev("update", kind, lv, how, None if ret is None else [int(x) for x in ret])
                aft_old = set(tuple(int(x) for x in t) for t in cs.old_index_set)
                aft_act = set(tuple(int(x) for x in t) for t in cs.active_index_set)
                if not (before[0] | before[1]) <= (aft_old | aft_act):
                    ctx.violate("refinement_loses_index", {"dim": d}, "update(%s) removed %s from the index set" % (
                        lv, sorted((before[0] | before[1]) - (aft_old | aft_act))[:4]))
                if was_active:
                    ctx.probe("update_refined")
                    if cs.lmax_adaptive > before[2]:
                        ctx.probe("lmax_adaptive_raised")
                    if ret is not None and len(ret) < d:
                        ctx.probe("neighbour_inadmissible")
                else:
                    ctx.probe("update_refused"); ctx.fault("invalid_request")
                    if (aft_old | aft_act) != (before[0] | before[1]):
                        # a request on a non-refinable level vector may be ignored or refused, it must not damage the set;
                        # the invariants below decide; here only record
                        ctx.probe("refused_request_changed_set")
            elif op[0] == "query":
                _, q, arg = op
                I = sorted(tuple(int(x) for x in t) for t in cs.get_index_set())
                before = (frozenset(cs.old_index_set), frozenset(cs.active_index_set))
                lv = list(I[arg % len(I)])
                if arg % 3 == 0:
                    lv[arg % d] += 1
                getattr(cs, q)(lv)
                if (frozenset(cs.old_index_set), frozenset(cs.active_index_set)) != before:
                    ctx.violate("query_changes_state", {"query": q}, "query %s(%s) changed the index sets" % (q, lv))
                ctx.ev("query", q, lv)
            self.invariants(cs, d, ctx)

    def invariants(self, cs, d, ctx):
        import numpy as np
        lmin = cs.lmin
        old = set(tuple(int(x) for x in t) for t in cs.old_index_set)
        act = set(tuple(int(x) for x in t) for t in cs.active_index_set)
        I = old | act
        ctx.state((sorted(old), sorted(act)))
        sig = {"dim": d}
        if len(old) != len(cs.old_index_set) or len(act) != len(cs.active_index_set):
            ctx.violate("index_duplicates", sig, "index sets hold the same level vector twice")
        if old & act:
            ctx.violate("old_active_disjoint", sig, "old and active share %s" % sorted(old & act)[:3])
        if I != set(tuple(int(x) for x in t) for t in cs.get_index_set()):
            ctx.violate("get_index_set", sig, "get_index_set() is not the union of old and active")
        for l in I:
            if len(l) != d:
                ctx.violate("index_dimension", sig, "level vector %s has wrong length" % (l,))
            for k in range(d):
                if l[k] < lmin:
                    ctx.violate("below_lmin", sig, "index %s below lmin=%d" % (l, lmin))
                if l[k] > lmin:
                    b = l[:k] + (l[k] - 1,) + l[k + 1:]
                    if b not in I:
                        ctx.violate("downward_closed", sig, "index %s in set but backward neighbour %s is not (lmin=%d)" % (l, b, lmin))
        for l in act:
            for k in range(d):
                f = l[:k] + (l[k] + 1,) + l[k + 1:]
                if f in I:
                    ctx.violate("active_has_forward_neighbour", sig, "active %s has forward neighbour %s in the set" % (l, f))
        if tuple([lmin] * d) not in I:
            # "hence they sum to 1 overall": the total is the dominance sum of the minimum level vector
            ctx.violate("index_set_contains_minimum", sig, "the minimum level vector %s is not in the index set %s" % ([lmin] * d, sorted(I)[:10]))
        ctx.ok("set_invariants")
        scheme = cs.getCombiScheme(do_print=False)
        m = _as_map(scheme, ctx, "adaptive", d)
        for l in m:
            if l not in I:
                ctx.violate("component_outside_index_set", sig, "returned component %s is not in the index set" % (l,))
        # inclusion-exclusion: dominance sums over the box [lmin, max+1]^d by suffix sums
        top = max(max(l) for l in I) + 1
        n = top - lmin + 1
        A = np.zeros((n,) * d, dtype=np.int64)
        Ind = np.zeros((n,) * d, dtype=np.int64)
        for l, c in m.items():
            if c != int(c):
                ctx.violate("coefficient_not_integer", sig, "coefficient %r of %s" % (c, l))
            A[tuple(x - lmin for x in l)] += int(c)
        for l in I:
            Ind[tuple(x - lmin for x in l)] = 1
        S = A
        for ax in range(d):
            S = np.flip(np.cumsum(np.flip(S, ax), ax), ax)
        if not np.array_equal(S, Ind):
            bad = np.argwhere(S != Ind)[0]
            l = tuple(int(x) + lmin for x in bad)
            ctx.violate("inclusion_exclusion", sig,
                        "coefficients of grids dominating %s sum to %d, expected %d; lmin=%d I=%s scheme=%s" % (
                            l, int(S[tuple(bad)]), int(Ind[tuple(bad)]), lmin, sorted(I)[:40], sorted(m.items())[:40]))
        ctx.ok("inclusion_exclusion", int(Ind.size))
        # R-scheme: Moebius inversion of the downset indicator, c_g = sum_z (-1)^|z| [g+z in I]
        # (exhaustive only for small sets to keep a run cheap; the dominance sums above already decide)
        if len(I) <= 80:
            for g in I:
                c = 0
                for z in itertools.product((0, 1), repeat=d):
                    if tuple(a + b for a, b in zip(g, z)) in I:
                        c += -1 if sum(z) % 2 else 1
                if c != m.get(g, 0):
                    ctx.violate("moebius_coefficient", sig, "coefficient of %s is %s, Moebius inversion gives %d" % (g, m.get(g, 0), c))
            ctx.ok("moebius_coefficient")


def _as_map(scheme, ctx, which, d):
    m = {}
    for cg in scheme:
        lv = tuple(int(x) for x in cg.levelvector)
        if lv in m:
            ctx.violate("component_returned_twice", {"dim": d, "scheme": which}, "level vector %s returned twice" % (lv,))
        m[lv] = cg.coefficient
    return {k: v for k, v in m.items() if v != 0}


def _cp(s):
    import copy
    return copy.deepcopy(s)


CHECK = C01
