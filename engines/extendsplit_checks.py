"""Checks served by extendsplit_sim: C07 (areas)."""
from simcore.runner import Check
from simcore.seeds import stream
from engines import dimwise_sim as DS
from engines import extendsplit_sim as ES

REAL = ["SpatiallyAdaptiveExtendScheme", "SpatiallyAdaptivBase (driver loop, refine)", "RefinementContainer",
        "RefinementObjectExtendSplit", "CombiScheme (closed form)", "Integration", "TrapezoidalGrid", "Function (call/cache paths)",
        "Interpolation", "extend-split error-estimate machinery (calc_error, parent split/extend operations)"]
STUB = ["integrand values (SimFunction.eval: keyed hash)", "error estimator answers (SimErrorCalculator: keyed class draws)",
        "clocks (SimClock)", "stdout"]


class C07(Check):
    pid = "C07"
    runs = {"quick": 1200, "thorough": 12000}
    budget_s = {"quick": 90.0, "thorough": 900.0}
    block = 6
    run_timeout_s = 120.0
    real, stub = REAL, STUB
    rule = ("schedule = extend-split configuration (dim 2-3, lmin, lmax, coarsening version 0-2, splits before extend, automatic "
            "extend/split, single-dimension splitting, boundary, margin, box) + benefit answers per area (keyed draws with zeros/ties); "
            "1-5 evaluations of the real adaptive loop; after every refinement step and evaluation: tiling, coarsening >= 0, unique point "
            "assignment for seeded points (interior, faces, corners, domain boundary), per-leaf coefficient sums over the computed component "
            "grids, local reproduction of an arbitrary function; 15 % of the boundary-on histories are hands-off (no inspection while the run proceeds: the run is given the corners of the initial areas as evaluation points and the interpolation error it reports there must vanish). A state is the set of leaf boxes with coarsening values and lmax; "
            "distinct_nontrivial counts distinct states reached after a refinement step")
    excluded_configs = ["dim 1 (coarsen_grid indexes a second dimension)", "noInitialSplitting=True (asserted unsupported)",
                        "coarsening version 3 (outside the documented versions 0-2)"]
    expected_probes = ["split", "extend_only_step", "single_area_step", "refine_everything_step", "container_restart", "hands_off_history"]

    def setup(self):
        import numpy  # noqa
        import sparseSpACE.spatiallyAdaptiveExtendSplit  # noqa
        import simcore.env  # noqa
        DS.install_observers()

    def gen(self, rk, tier, idx):
        r = stream(rk, "cfg")
        cfg = ES.gen_cfg(r, tier)
        # 20 %: the history is interrupted by the limit mechanism and continued through the second route the API documents
        # (a new driver call that is handed the returned container) - the areas must stay a valid tiling with valid local
        # combinations across that seam
        cfg["restart_limit"] = r.choice([0, 10, 25, 50, 90]) if r.random() < 0.2 else None
        h = stream(rk, "hands_off")
        if cfg["boundary"] and h.random() < 0.15:
            # hands-off histories: nothing inspects the structure while the run proceeds (inspection itself calls coarsen_grid and
            # thereby registers level vectors in the leaves). The run monitors itself instead: it is given evaluation points - the
            # corners of the initial areas, which stay corners of whichever leaf owns them and hence grid points of every component
            # grid computed there - and the interpolation error the library reports at them must vanish at every evaluation
            cfg["hands_off"] = True
            cfg["evals"] = h.randint(3, 8)
            cfg["restart_limit"] = None
        return {"config": cfg, "ops": []}

    def simplify(self, s):
        return ES.simplify_cfg(s)

    def execute_hands_off(self, sched, ctx):
        import itertools
        import numpy as np
        cfg = sched["config"]
        sim = ES.ExtendSplitSim(cfg, sched["rk"], ctx, [])
        sim.build()
        a, b = cfg["a"], cfg["b"]
        P = [tuple(float(x) for x in p) for p in itertools.product(*[(a[d], 0.5 * (a[d] + b[d]), b[d]) for d in range(cfg["dim"])])]
        ctx.probe("hands_off_history")
        try:
            sim.perform(tol=-1.0, max_evaluations=None, stop_after=cfg["evals"], evaluation_points=P)
        except DS.StopRun:
            pass
        errs = [float(x) for x in getattr(sim.sa, "interpolation_error_arrayMax", [])]
        scale = 1.0 + max(float(np.max(np.abs(sim.f.peek(p)))) for p in P)
        sig = {"oracle": "monitored_interpolation_error_vanishes", "strategy": "extend_split", "version": cfg["version"], "automatic": bool(cfg.get("automatic")),
               "single_dim": bool(cfg.get("single_dim"))}
        for i, e in enumerate(errs):
            if not e <= 1e-9 * scale:
                ctx.violate("monitored_interpolation_error_vanishes", sig, "evaluation %d: the interpolation error the run reports at the corners of the initial areas (grid points of "
                            "every component grid of their leaves) is %.3e; history of reported errors %s" % (i, e, ["%.2e" % x for x in errs]))
        ctx.ok("monitored_interpolation_error_vanishes", len(errs))
        ctx.state(sim.structure_key())

    def execute(self, sched, ctx):
        cfg = sched["config"]
        if cfg.get("hands_off"):
            return self.execute_hands_off(sched, ctx)
        sim = ES.ExtendSplitSim(cfg, sched["rk"], ctx, [ES.AreaMonitor()])
        sim.build()
        try:
            if cfg.get("restart_limit") is not None:
                ret = sim.perform(tol=-1.0, max_evaluations=cfg["restart_limit"])
                ctx.fault("container_restart"); ctx.probe("container_restart")
                sim.perform(tol=-1.0, max_evaluations=None, stop_after=sim.n_eval + cfg["evals"], refinement_container=ret[0])
            else:
                sim.perform(tol=-1.0, max_evaluations=None, stop_after=cfg["evals"])
        except DS.StopRun:
            pass


CHECKS = {"C07": C07}
