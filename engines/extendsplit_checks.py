"""Checks served by extendsplit_sim: C07 (areas)."""
from simcore.runner import Check
from simcore.seeds import stream
from engines import dimwise_sim as DS
from engines import extendsplit_sim as ES

REAL = ["SpatiallyAdaptiveExtendScheme", "SpatiallyAdaptivBase (driver loop, refine)", "RefinementContainer",
        "RefinementObjectExtendSplit", "CombiScheme (closed form)", "Integration", "TrapezoidalGrid", "Function (call/cache paths)",
        "Interpolation", "extend-split error-estimate machinery (calc_error, parent split/extend operations)"]
STUB = ["integrand values (SimFunction.eval: keyed hash)", "error estimator answers (SimErrorCalculator: keyed class draws)",
        "clocks (SimClock)", "stdout"]


class C07(Check):
    pid = "C07"
    runs = {"quick": 1200, "thorough": 12000}
    budget_s = {"quick": 90.0, "thorough": 900.0}
    block = 6
    run_timeout_s = 120.0
    real, stub = REAL, STUB
    rule = ("schedule = extend-split configuration (dim 2-3, lmin, lmax, coarsening version 0-2, splits before extend, automatic "
            "extend/split, single-dimension splitting, boundary, margin, box) + benefit answers per area (keyed draws with zeros/ties); "
            "1-5 evaluations of the real adaptive loop; after every refinement step and evaluation: tiling, coarsening >= 0, unique point "
            "assignment for seeded points (interior, faces, corners, domain boundary), per-leaf coefficient sums over the computed component "
            "grids, local reproduction of an arbitrary function. A state is the set of leaf boxes with coarsening values and lmax; "
            "distinct_nontrivial counts distinct states reached after a refinement step")
    excluded_configs = ["dim 1 (coarsen_grid indexes a second dimension)", "noInitialSplitting=True (asserted unsupported)",
                        "coarsening version 3 (outside the documented versions 0-2)"]
    expected_probes = ["split", "extend_only_step", "single_area_step", "refine_everything_step", "container_restart"]

    def setup(self):
        import numpy  # noqa
        import sparseSpACE.spatiallyAdaptiveExtendSplit  # noqa
        import simcore.env  # noqa
        DS.install_observers()

    def gen(self, rk, tier, idx):
        r = stream(rk, "cfg")
        cfg = ES.gen_cfg(r, tier)
        # 20 %: the history is interrupted by the limit mechanism and continued through the second route the API documents
        # (a new driver call that is handed the returned container) - the areas must stay a valid tiling with valid local
        # combinations across that seam
        cfg["restart_limit"] = r.choice([0, 10, 25, 50, 90]) if r.random() < 0.2 else None
        return {"config": cfg, "ops": []}

    def simplify(self, s):
        return ES.simplify_cfg(s)

    def execute(self, sched, ctx):
        cfg = sched["config"]
        sim = ES.ExtendSplitSim(cfg, sched["rk"], ctx, [ES.AreaMonitor()])
        sim.build()
        try:
            if cfg.get("restart_limit") is not None:
                ret = sim.perform(tol=-1.0, max_evaluations=cfg["restart_limit"])
                ctx.fault("container_restart"); ctx.probe("container_restart")
                sim.perform(tol=-1.0, max_evaluations=None, stop_after=sim.n_eval + cfg["evals"], refinement_container=ret[0])
            else:
                sim.perform(tol=-1.0, max_evaluations=None, stop_after=cfg["evals"])
        except DS.StopRun:
            pass


CHECKS = {"C07": C07}
