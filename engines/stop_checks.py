"""C13: the adaptive driver's stopping rules and reported numbers, on all three strategies with the real estimators."""
import copy
import numpy as np
from simcore.runner import Check
from simcore.ctx import Excluded
from simcore.seeds import stream
from engines import dimwise_sim as DS
from engines import extendsplit_sim as ES
from engines.dimwise_sim import EPS, Monitor


class Recorder(Monitor):
    """records, at every evaluation, what the stub itself has seen: distinct points so far and the current result"""

    def __init__(self):
        self.seen = []
        self.results = []
        self.neg = None

    def on_eval(self, sim):
        # the analytic values the driver asks for at user-given evaluation points (interpolation-error history) are not grid
        # evaluations; they are left out of the stub's count
        self.seen.append(len(sim.f.seen - getattr(self, "not_counted", set())))
        self.results.append(np.array(sim.op.get_result(), dtype=float).copy())
        for objs in sim.containers():
            for o in objs:
                b = getattr(o, "benefit", None)
                e = getattr(o, "error", None)
                for name, v in (("benefit", b), ("error", e)):
                    if v is not None and np.any(np.asarray(v, dtype=float) < 0):
                        self.neg = "%s %r of area/interval %r-%r" % (name, v, getattr(o, "start", None), getattr(o, "end", None))


class C13(Check):
    pid = "C13"
    runs = {"quick": 6000, "thorough": 80000}
    budget_s = {"quick": 90.0, "thorough": 900.0}
    block = 25
    run_timeout_s = 120.0
    real = ["SpatiallyAdaptivBase.continue_adaptive_refinement (stop rules)", "ErrorCalculatorSingleDimVolumeGuided", "ErrorCalculatorExtendSplit",
            "ErrorCalculatorSurplusCell", "Integration.get_global_error_estimate", "UncertaintyQuantification on GlobalTrapezoidalGridWeighted (a tenth of the runs)", "StandardCombi.get_total_num_points", "Function cache",
            "all three adaptive strategies with their refinement containers"]
    stub = ["integrand values (SimFunction.eval: keyed hash; counts distinct points itself)", "clocks (SimClock)"]
    rule = ("schedule = strategy (dimension-wise / extend-split / cell) with the real error estimator, hash-valued scalar or vector integrand, "
            "reference vector (all non-zero or all zero), norm, and limits (tol, min_evaluations, max_evaluations) drawn so that every "
            "ordering of which limit bites first occurs, including limits met at the first evaluation; 35 % of the runs are continued with new limits, 30 % of those continue the instance that save_to_file / restore_from_file give back; 8 % of the non-zero references are of magnitude 1e-9 ... 1e-12. Observers count evaluate/refine calls "
            "and record the result and the stub's own distinct-point count at every evaluation. A state is the refinement structure; "
            "distinct_nontrivial counts distinct structures at the stop of a run")
    expected_probes = ["continued_with_new_limits", "continued_restored_instance", "error_equals_tolerance_at_stop", "points_equal_minimum_at_stop", "stop_by_tolerance", "stop_by_max", "stop_at_first_evaluation", "min_evaluations_delayed_stop", "zero_reference", "uq_operation"]
    assumptions = ["the library's documented error norm (mean-normalised p-norm of the component-wise relative deviation) is taken as the definition",
                   "runs that do not stop within the evaluation cap are excluded, not judged (every configuration carries a finite maximum)"]
    excluded_configs = ["reference vectors with some but not all components zero (relative error undefined)",
                        "configurations without max_evaluations", "cell strategy with lmin != lmax (unsupported)",
                        "extend-split: automatic decision with lmin == lmax (known finding of C07)"]

    def setup(self):
        import sparseSpACE.spatiallyAdaptiveSingleDimension2, sparseSpACE.spatiallyAdaptiveExtendSplit, sparseSpACE.spatiallyAdaptiveCell  # noqa
        import simcore.env  # noqa
        DS.install_observers()

    def gen(self, rk, tier, idx):
        r = stream(rk, "cfg")
        strategy = r.choice(["dimension_wise"] * 4 + ["extend_split"] * 3 + ["cell"] * 2 + ["dimension_wise_uq"])
        if strategy == "dimension_wise_uq":
            # another operation with a reference solution under the same driver: uncertainty quantification (first and second
            # moments of a three-component model on the weighted grid)
            from engines import uq_sim as UQ
            cfg = UQ.C15().gen(rk, tier, idx)["config"]
            cfg.update(max_intervals=10 ** 6, norm=r.choice([1, 2, "inf"]), prelude=0)     # (no earlier run on the operation: its evaluations would count as the stub's)
        elif strategy == "dimension_wise":
            cfg = DS.gen_cfg(r, tier, dims=(1, 2, 2, 2, 3, 3))
            cfg["max_intervals"] = 10 ** 6
        elif strategy == "extend_split":
            cfg = ES.gen_cfg(r, tier)
            cfg["max_leaves"] = 10 ** 6
            if cfg["lmin"] == cfg["lmax"]:
                cfg["automatic"] = False
            if r.random() < 0.25:      # other local grid families that run in this strategy here
                cfg["grid"] = r.choice(ES.LOCAL_GRIDS[1:])
                cfg["boundary"] = True
                cfg["single_dim"] = False
        else:
            cfg = ES.gen_cell_cfg(r, tier)
            cfg["max_leaves"] = 10 ** 6
        # frequent from-scratch recalculation (skip_fast_path) in a share of the runs: point counts must stay truthful across it
        cfg.update(strategy=strategy, estimator="real", recalc=(r.choice([1, 2, 3, 5]) if (strategy != "cell" and r.random() < 0.3) else None),
                   max_points=10 ** 6, nnoise=r.choice([1, 1, 2, 3]), jump=False)
        # (global grid families other than the trapezoidal one are not drawn here: the quantifier of this property does not range
        # over grid types, and GlobalHighOrderGrid without boundary points evaluates the integrand at zero-weight points in the
        # surplus computation before they are ever counted - noted in DESIGN.md 9.2 as an observation outside the quantifier)
        # interpolation-error history arrays are part of the returned tuple when evaluation points are given
        cfg["evaluation_points"] = r.randint(2, 5) if (strategy == "dimension_wise" and cfg["boundary"] and r.random() < 0.25) else 0
        if strategy == "dimension_wise_uq":
            cfg["recalc"] = None
        n = cfg["nnoise"] if strategy != "dimension_wise_uq" else 6
        cfg["reference"] = [0.0] * n if r.random() < 0.2 else [r.choice([0.5, -0.3, 2.0, 0.05]) for _ in range(n)]
        t = stream(rk, "tiny_reference")
        if t.random() < 0.08 and any(cfg["reference"]):
            # a reference of very small magnitude is still a non-zero reference: the error is the relative deviation
            cfg["reference"] = [v * t.choice([1e-9, 1e-10, 1e-12]) for v in cfg["reference"]]
        tol = r.choice([0.0, 0.05, 0.3, 1.0, 3.0, 50.0])
        mn = r.choice([1, 1, 1, 20, 60, 150])
        mx = r.choice([0, 3, 10, 40, 90, 150, 300])      # (0 is a limit like any other: exceeded by the first evaluation)
        lim = {"tol": tol, "min_evaluations": mn, "max_evaluations": mx}
        ops_extra = []
        if r.random() < 0.35:
            # the documented continuation: new limits apply to the continued run
            lim2 = {"tol": r.choice([0.0, 0.05, 0.3, 1.0, 3.0, 50.0]), "min_evaluations": r.choice([1, 1, 20, 60, 150]),
                    "max_evaluations": mx + r.choice([0, 5, 30, 100, 200])}
            ops_extra = [["continue", lim2]]
            if r.random() < 0.3:
                # the continued object is not the live one but what save_to_file / restore_from_file give back (the counts and the
                # stop rule of the continued run are judged exactly as for the live object)
                lim2["via"] = "restored"
        if r.random() < 0.4:
            # boundary schedule: limits are set *exactly* onto values the run itself produces (learnt from an exploratory
            # twin with the same environment): tol == E[k], min == N[k] (+1), max == N[k] (-1)
            lim["exact"] = {"k": r.randrange(0, 6), "tol": r.choice(["E[k]", "E[k]", None]), "min": r.choice([None, "N[k]", "N[k]+1"]),
                            "max": r.choice([None, "N[k]", "N[k]-1"])}
        return {"config": cfg, "ops": [["run", lim]] + ops_extra}

    def simplify(self, s):
        st = s["config"]["strategy"]
        gen = DS.simplify_cfg(s) if st == "dimension_wise" else (ES.simplify_cfg(s) if st == "extend_split" else [])
        if st == "dimension_wise_uq":
            gen = []
        for c in gen:
            c["config"]["estimator"] = "real"
            if len(c["config"]["reference"]) != c["config"]["nnoise"]:
                c["config"]["reference"] = c["config"]["reference"][:c["config"]["nnoise"]]
            yield c
        lim = s["ops"][0][1]
        for k, vals in (("max_evaluations", (3, 10, 40)), ("min_evaluations", (1,)), ("tol", (0.0, 1.0))):
            for v in vals:
                if lim[k] != v:
                    n = copy.deepcopy(s); n["ops"][0][1][k] = v; yield n

    fixed_prefix = 1

    def execute(self, sched, ctx):
        cfg = sched["config"]
        lim = sched["ops"][0][1]
        st = cfg["strategy"]
        rec = Recorder()
        from engines import uq_sim as UQ
        cls = {"dimension_wise": DS.DimwiseSim, "extend_split": ES.ExtendSplitSim, "cell": ES.CellSim, "dimension_wise_uq": UQ.UQSim}[st]
        if st == "dimension_wise_uq":
            ctx.probe("uq_operation")
        if lim.get("exact"):
            lim = dict(lim)
            ex = lim.pop("exact")
            probe = cls(cfg, sched["rk"], ctx, [])
            probe.eval_cap = 120
            probe.build(reference=cfg["reference"])
            try:
                pr = probe.perform(tol=-1.0, max_evaluations=lim["max_evaluations"], min_evaluations=1)
            except DS.StopRun:
                raise Excluded("no stop within the evaluation cap")
            pE, pN = [float(x) for x in pr[5]], [int(x) for x in pr[6]]
            k = ex["k"] % len(pE)
            if ex["tol"]:
                lim["tol"] = pE[k]
            if ex["min"]:
                lim["min_evaluations"] = pN[k] + (1 if ex["min"].endswith("+1") else 0)
            if ex["max"]:
                lim["max_evaluations"] = max(0, pN[k] - (1 if ex["max"].endswith("-1") else 0))
            ctx.fault("limit_exactly_on_boundary")
            ctx.ev("exact_limits", repr(lim["tol"]), lim["min_evaluations"], lim["max_evaluations"])
        sim = cls(cfg, sched["rk"], ctx, [rec])
        sim.eval_cap = 120
        sim.divergence_is_violation = True      # a driver call that never returns stops at no evaluation at all
        sim.build(reference=cfg["reference"])
        sig = {"strategy": st}
        try:
            kw = {}
            if cfg.get("evaluation_points"):
                from simcore.seeds import H
                kw["evaluation_points"] = [tuple(cfg["a"][d] + (cfg["b"][d] - cfg["a"][d]) * (0.05 + 0.9 * H(sched["rk"], "evp", k, d)) for d in range(cfg["dim"]))
                                           for k in range(cfg["evaluation_points"])]
                rec.not_counted = set(tuple(float(x) for x in p) for p in kw["evaluation_points"])
                ctx.probe("with_evaluation_points")
            res = sim.perform(tol=lim["tol"], max_evaluations=lim["max_evaluations"], min_evaluations=lim["min_evaluations"], **kw)
        except DS.StopRun:
            raise Excluded("no stop within the evaluation cap")
        ctx.state(sim.structure_key())
        self.judge(ctx, sim, rec, cfg, lim, res, 0, 1, sig)
        for op in sched["ops"][1:]:
            lim2 = op[1]
            start = sim.n_eval
            if lim2.get("via") == "restored":
                from simcore import seams
                import sparseSpACE.StandardCombi as SC
                from engines.resume_checks import model_of
                with seams.quiet():
                    sim.sa.save_to_file("mem://c13-checkpoint")
                    sim.sa = sim.op = sim.f = sim.err = None
                    sa2 = SC.StandardCombi.restore_from_file("mem://c13-checkpoint")
                sim.sa, sim.op, sim.f, sim.err = sa2, sa2.operation, model_of(sa2.operation), sa2.errorEstimator
                ctx.fault("save"); ctx.fault("crash_restore"); ctx.probe("continued_restored_instance")
            try:
                res = sim.cont(tol=lim2["tol"], max_evaluations=lim2["max_evaluations"], min_evaluations=lim2["min_evaluations"])
            except DS.StopRun:
                raise Excluded("no stop within the evaluation cap")
            ctx.probe("continued_with_new_limits")
            ctx.state(sim.structure_key())
            self.judge(ctx, sim, rec, cfg, lim2, res, start, 2, dict(sig, call="continue"))

    def judge(self, ctx, sim, rec, cfg, lim, res, start, ncalls, sig):
        """clauses for the driver call that produced evaluations start .. end of the (cumulative) history arrays"""
        tol, mn, mx = lim["tol"], lim["min_evaluations"], lim["max_evaluations"]
        E = [float(x) for x in res[5]]
        N = [int(x) for x in res[6]]
        S = list(res[7])
        R = np.array(res[3], dtype=float)
        ctx.ev("stopped", len(E), N, [repr(e) for e in E])
        if not (len(E) == len(N) == len(S) == sim.n_eval):
            ctx.violate("history_array_lengths", sig, "error/points/surplus arrays have %d/%d/%d entries for %d evaluations" % (len(E), len(N), len(S), sim.n_eval))
        if cfg.get("evaluation_points") and not (len(res[8]) == len(res[9]) == sim.n_eval):
            ctx.violate("history_array_lengths", dict(sig, arrays="interpolation_error"), "interpolation error arrays have %d/%d entries for %d evaluations" % (len(res[8]), len(res[9]), sim.n_eval))
        if sim.n_refine != sim.n_eval - ncalls:
            ctx.violate("refine_after_stop", sig, "%d refinement steps for %d evaluations in %d driver calls" % (sim.n_refine, sim.n_eval, ncalls))
        stops = [i for i, (e, n) in enumerate(zip(E, N)) if i >= start and ((e <= tol and n >= mn) or (mx is not None and n > mx))]
        if not stops or stops[0] != len(E) - 1:
            ctx.violate("stop_index", sig, "stop conditions first hold at index %s, the run stopped at index %d; E=%s N=%s tol=%r min=%r max=%r" % (
                stops[:1], len(E) - 1, E, N, tol, mn, mx))
        ctx.ok("stop_index")
        last_e, last_n = E[-1], N[-1]
        if last_e <= tol and last_n >= mn:
            ctx.probe("stop_by_tolerance")
        elif mx is not None and last_n > mx:
            ctx.probe("stop_by_max")
        if len(E) - start == 1:
            ctx.probe("stop_at_first_evaluation")
        if last_e == tol:
            ctx.probe("error_equals_tolerance_at_stop")
        if last_n == mn and last_e <= tol:
            ctx.probe("points_equal_minimum_at_stop")
        if any(e <= tol and n < mn for e, n in zip(E[start:-1], N[start:-1])):
            ctx.probe("min_evaluations_delayed_stop")
        if any(n2 < n1 for n1, n2 in zip(N, N[1:])):
            ctx.violate("point_counts_monotone", sig, "point counts decrease: %s" % N)
        if any(e < 0 for e in E) or any(np.any(np.asarray(s, dtype=float) < 0) for s in S):
            ctx.violate("errors_non_negative", sig, "negative error estimate: E=%s S=%s" % (E, S))
        if rec.neg:
            ctx.violate("benefits_non_negative", sig, rec.neg)
        if N != rec.seen:
            ctx.violate("point_count_is_distinct_evaluations", sig, "reported point counts %s, distinct integrand evaluations counted by the stub %s" % (N, rec.seen))
        ctx.ok("point_count_is_distinct_evaluations", len(N))
        ref = np.array(cfg["reference"], dtype=float)
        norm = np.inf if cfg.get("norm", "inf") == "inf" else cfg["norm"]
        if np.all(ref == 0):
            ctx.probe("zero_reference")
        for i, Ri in enumerate(rec.results):
            if np.all(ref == 0):
                want = np.linalg.norm(np.abs(Ri), norm) / (len(Ri) ** (1.0 / norm))
            else:
                want = np.linalg.norm(np.abs((ref - Ri) / ref), norm) / (len(Ri) ** (1.0 / norm))
            if not abs(want - E[i]) <= 1e-12 * max(1.0, abs(want)):
                ctx.violate("reported_error_is_deviation", sig, "evaluation %d: reported error %r, deviation of the result %s from the reference %s is %r (norm %r)" % (
                    i, E[i], Ri.tolist(), ref.tolist(), want, cfg.get("norm")))
        ctx.ok("reported_error_is_deviation", len(E))
        if not np.allclose(rec.results[-1], R, rtol=0, atol=1e-12 * (1 + float(np.max(np.abs(R))))):
            ctx.violate("returned_result_is_final_result", sig, "returned result %s, result at the last evaluation %s" % (R.tolist(), rec.results[-1].tolist()))


CHECKS = {"C13": C13}
