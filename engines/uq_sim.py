"""uq_sim (C15) - weighted UQ quadrature and moment transformation along refinement histories of the real
dimension-wise strategy on GlobalTrapezoidalGridWeighted.

Real code: UncertaintyQuantification (distribution set-up, moment functions, expectation / variance), UQDistribution,
GlobalTrapezoidalGridWeighted (weights, probability-halving midpoint), SpatiallyAdaptiveSingleDimensions2, containers.
Stubs: model values (AffineModel: [g, c g + e, const] with g arbitrary per point), error-estimator answers, clocks.
The weight clauses are pure functions of a 1-D grid; they are evaluated as a stateless side-oracle on every 1-D grid a
history reaches and counted separately.
"""
import copy, math
import numpy as np
from simcore.runner import Check
from simcore.ctx import Excluded
from simcore.seeds import stream, H
from simcore import seams
from engines import dimwise_sim as DS
from engines.dimwise_sim import EPS, Monitor


class UQSim(DS.DimwiseSim):
    strategy = "dimension_wise_uq"

    def build(self, reference=None):
        from sparseSpACE.spatiallyAdaptiveSingleDimension2 import SpatiallyAdaptiveSingleDimensions2
        from sparseSpACE.GridOperation import UncertaintyQuantification
        from sparseSpACE.Grid import GlobalTrapezoidalGridWeighted
        from simcore.env import AffineModel, SimErrorCalculator
        c = self.cfg
        DS.install_observers()
        dim = c["dim"]
        a = np.array([float(x) for x in c["a"]])
        b = np.array([float(x) for x in c["b"]])
        self.f = AffineModel(self.rk, c["c"], c["e"], c["const"], smooth=c["smooth"])
        distris = [tuple(d) for d in c["distributions"]]
        self.ctx.exc_sig = {"families": "+".join(sorted(set(d[0] for d in distris))), "boundary": c["boundary"]}
        self.op = UncertaintyQuantification(self.f, distris, a, b, print_level=100, log_level=100) if False else UncertaintyQuantification(self.f, distris, a, b)
        self.op.log_util.set_print_level(100)
        self.op.log_util.set_log_level(100)
        had_prelude = False
        if c.get("prelude") and all(math.isfinite(x) for x in list(c["a"]) + list(c["b"])):
            # the operation object has a past: it was used before with a weighted grid of the other boundary setting (same
            # distributions, same domain) for a short adaptive run; whatever the operation and its distribution objects remember
            # from that must not reach the run under observation
            g0 = GlobalTrapezoidalGridWeighted(a, b, self.op, boundary=not c["boundary"])
            self.op.set_grid(g0)
            self.op.set_expectation_variance_Function()
            sa0 = SpatiallyAdaptiveSingleDimensions2(a, b, operation=self.op, norm=2, grid_surplusses=self.op.get_grid(), margin=0.9,
                                                     rebalancing=False, version=6, print_level=100, log_level=100)
            err0 = SimErrorCalculator(self.rk + "-prelude", p_zero=0.0, p_tie=0.0, mode="mix", use_epoch=False)
            with seams.quiet():
                sa0.performSpatiallyAdaptiv(1, c["lmax"], err0, tol=-1.0, max_evaluations=c["prelude"], print_output=False)
            self.ctx.probe("operation_used_before_with_other_boundary_setting")
            self.ctx.fault("operation_reused")
            had_prelude = True
        grid = GlobalTrapezoidalGridWeighted(a, b, self.op, boundary=c["boundary"])
        self.op.set_grid(grid)
        if not had_prelude:       # (the moment function is built on top of the operation's current function: set once)
            self.op.set_expectation_variance_Function()
        if reference is not None:
            self.op.set_reference_solution(np.array(reference, dtype=float))
        norm = 2 if "norm" not in c else (np.inf if c["norm"] == "inf" else c["norm"])
        self.sa = SpatiallyAdaptiveSingleDimensions2(a, b, operation=self.op, norm=norm, use_volume_weighting=c["volume_weighting"],
                                                     grid_surplusses=self.op.get_grid(), margin=c["margin"], rebalancing=c["rebalancing"],
                                                     version=c["version"], print_level=100, log_level=100)
        if c.get("estimator") == "real":
            from sparseSpACE.ErrorCalculator import ErrorCalculatorSingleDimVolumeGuided
            self.err = ErrorCalculatorSingleDimVolumeGuided()
        else:
            self.err = SimErrorCalculator(self.rk, p_zero=c["p_zero"], p_tie=c["p_tie"], mode="mix", use_epoch=c.get("use_epoch", True))
        return self

    def too_big(self):
        return max(len(o) for o in self.containers()) > self.cfg.get("max_intervals", 30) or len(self.f.seen) > 2500

    def _resolution(self, e):
        DS.DimwiseSim._resolution(e)
        if "calculated negative weight" in str(e):
            # the weight of an end point is (first moment - mass * x1) / (x2 - x1): for an interval narrower than about 1e-9 of its
            # position the rounding of the two moments is amplified beyond the 1e-5 the library tolerates. A history that zoomed
            # in that far (observed: level 45, width 1e-13) is a degenerate input like the split at floating-point resolution;
            # the same assertion on intervals of ordinary width stays a violation
            rel = min((float(o.end) - float(o.start)) / max(abs(float(o.start)), abs(float(o.end)), 1e-300)
                      for objs in self.containers() for o in objs if math.isfinite(o.start) and math.isfinite(o.end))
            if rel < 1e-9:
                raise Excluded("interval at the rounding resolution of the weighted-moment formula")

    def structure_key(self):
        return [[(repr(float(o.start)), repr(float(o.end)), int(o.levels[0]), int(o.levels[1])) for o in objs] for objs in self.containers()]


class RefDist:
    """R-dist: the distribution of one dimension built by the harness from the configuration (scipy only), independent of
    the distribution objects the operation under test creates"""

    def __init__(self, info, a, b):
        import scipy.stats as st
        fam = info[0]
        if fam == "Uniform":
            self.d = st.uniform(loc=a, scale=b - a)
        elif fam == "Triangle":
            self.d = st.triang(c=(info[1] - a) / (b - a), loc=a, scale=b - a)
        elif fam == "Normal":
            self.d = st.norm(loc=info[1], scale=info[2])
        else:
            raise ValueError(fam)

    def cdf(self, x):
        return float(self.d.cdf(x))

    def ppf(self, q):
        return float(self.d.ppf(q))


def cdf_roundtrip_bound(distr, x):
    """accuracy of the family's inverse cdf at x, measured (not guessed): |cdf(ppf(q)) - q| for q = cdf(x) and neighbours"""
    q = float(distr.cdf(x))
    worst = 0.0
    for qq in (q, min(1.0, q * (1 + 1e-9) + 1e-300), max(0.0, q * (1 - 1e-9))):
        if 0.0 < qq < 1.0:
            worst = max(worst, abs(float(distr.cdf(distr.ppf(qq))) - qq))
    return worst


class UQMonitor(Monitor):
    def __init__(self):
        self.prev = None

    def sig(self, sim, **kw):
        c = sim.cfg
        s = {"boundary": c["boundary"], "families": "+".join(sorted(set(d[0] for d in c["distributions"]))),
             "finite_normal": any(d[0] == "Normal" and math.isfinite(c["a"][i]) and math.isfinite(c["b"][i]) for i, d in enumerate(c["distributions"]))}
        s.update(kw)
        return s

    # ---- moments on one and the same refined grid
    def on_eval(self, sim):
        ctx, c = sim.ctx, sim.cfg
        self.weights_side_oracle(sim)
        if "moments" in ctx.tainted:
            return
        (E, Var) = sim.op.calculate_expectation_and_variance(sim.sa)
        E = [float(x) for x in E]; Var = [float(x) for x in Var]
        # asking again on the same refined grid must give the same answer (queries must not consume the stored moments),
        # and the nodes-and-weights path must agree with the combined-moments path
        (E2, Var2) = sim.op.calculate_expectation_and_variance(sim.sa)
        if [float(x) for x in E2] != E or [float(x) for x in Var2] != Var:
            ctx.violate("moments_query_idempotent", self.sig(sim), "second query on the same grid gives E=%s Var=%s, first gave E=%s Var=%s" % (
                [float(x) for x in E2], [float(x) for x in Var2], E, Var), taint="moments")
            return
        (E3, Var3) = sim.op.calculate_expectation_and_variance(sim.sa, use_combiinstance_solution=False)
        sc = 1.0 + max(abs(x) for x in E + Var)
        if any(abs(float(x) - y) > 1e-8 * sc for x, y in zip(list(E3) + list(Var3), E + Var)):
            ctx.violate("moments_two_paths_agree", self.sig(sim), "nodes-and-weights path gives E=%s Var=%s, combined-moments path E=%s Var=%s" % (
                [float(x) for x in E3], [float(x) for x in Var3], E, Var), taint="moments")
            return
        # the single-moment queries are further public routes to the same numbers
        m1q = E[:3]     # (calculate_expectation with the combined solution belongs to runs whose integrand is a single moment function)
        m1n = [float(x) for x in np.asarray(sim.op.calculate_moment(sim.sa, k=1, use_combiinstance_solution=False)).ravel()[:3]]
        m2n = [float(x) for x in np.asarray(sim.op.calculate_moment(sim.sa, k=2, use_combiinstance_solution=False)).ravel()[:3]]
        if any(abs(x - y) > 1e-8 * sc for x, y in zip(m1q, E)) or any(abs(x - y) > 1e-8 * sc for x, y in zip(m1n, E)) or \
                any(abs((x - e * e) - v) > 1e-8 * sc * sc and abs(abs(x - e * e) - v) > 1e-8 * sc * sc for x, e, v in zip(m2n, E, Var)):
            ctx.violate("moments_two_paths_agree", self.sig(sim, route="single_moment_queries"), "calculate_expectation %s, first / second moments from nodes and weights %s / %s, "
                        "expectation and variance %s / %s" % (m1q, m1n, m2n, E, Var), taint="moments")
            return
        cc, ee, const = c["c"], c["e"], c["const"]
        scale = 1.0 + abs(cc) * 2 + abs(ee) + abs(const)
        tol = 1e-9 * scale * scale
        raw = np.asarray(sim.op.get_result(), dtype=float)
        m1, m2 = raw[:3], raw[3:]
        rawvar = m2 - m1 * m1
        if abs(E[1] - (cc * E[0] + ee)) > tol:
            ctx.violate("expectation_affine", self.sig(sim), "E[c f + e] = %r, c E[f] + e = %r (c=%r, e=%r); evaluation %d" % (E[1], cc * E[0] + ee, cc, ee, sim.n_eval), taint="moments")
            return
        if abs(rawvar[1] - cc * cc * rawvar[0]) > tol or abs(Var[1] - cc * cc * Var[0]) > tol:
            ctx.violate("variance_affine", self.sig(sim), "Var[c f + e] = %r (raw %r), c^2 Var[f] = %r (raw %r); evaluation %d" % (Var[1], rawvar[1], cc * cc * Var[0], cc * cc * rawvar[0], sim.n_eval), taint="moments")
            return
        if any(v < 0 for v in Var):
            ctx.violate("variance_non_negative", self.sig(sim), "variances %s (second moment minus squared mean: %s)" % (Var, rawvar.tolist()), taint="moments")
            return
        if abs(E[2] - const) > tol or abs(Var[2]) > tol or abs(rawvar[2]) > tol:
            ctx.violate("constant_model", self.sig(sim), "constant model %r: expectation %r, variance %r (raw %r); evaluation %d" % (const, E[2], Var[2], rawvar[2], sim.n_eval), taint="moments")
            return
        ctx.ok("moment_identities")

    # ---- equal-probability splits
    def pre_refine(self, sim):
        self.prev = [[(float(o.start), float(o.end)) for o in objs] for objs in sim.containers()]

    def post_refine(self, sim):
        ctx = sim.ctx
        c = sim.cfg
        distrs = [RefDist(c["distributions"][d], c["a"][d], c["b"][d]) for d in range(c["dim"])]
        for d, objs in enumerate(sim.containers()):
            now = [(float(o.start), float(o.end)) for o in objs]
            old = set(self.prev[d])
            starts = {s: e for s, e in now}
            for (s, e) in self.prev[d]:
                if (s, e) in set(now):
                    continue
                m = starts.get(s)
                if m is None or starts.get(m) != e:
                    continue    # not a plain split of this interval (structure is C06's subject)
                if not (s < m < e):
                    ctx.violate("split_strictly_inside", self.sig(sim), "dim %d: [%r, %r] split at %r" % (d, s, e, m))
                dist = distrs[d]
                ps, pm, pe = float(dist.cdf(s)), float(dist.cdf(m)), float(dist.cdf(e))
                mass = pe - ps
                if mass <= 1e-13:
                    ctx.probe("split_in_underflowing_tail")      # documented fallback to the arithmetic midpoint
                    continue
                bound = 4 * max(cdf_roundtrip_bound(dist, m), 4 * EPS) + 1e-12 * mass
                if abs((pm - ps) - (pe - pm)) > bound:
                    ctx.violate("split_halves_probability", self.sig(sim, family=sim.cfg["distributions"][d][0]),
                                "dim %d (%s): [%r, %r] split at %r: P(left)=%r, P(right)=%r (bound %.2e)" % (d, sim.cfg["distributions"][d], s, e, m, pm - ps, pe - pm, bound))
                ctx.ok("split_halves_probability")

    # ---- stateless side-oracle: weights of every 1-D grid reached
    def weights_side_oracle(self, sim):
        from sparseSpACE.Grid import GlobalTrapezoidalGrid
        ctx, c = sim.ctx, sim.cfg
        if "weights" in ctx.tainted:
            return
        seen = set()
        for cg in sim.sa.scheme:
            lv = tuple(int(x) for x in cg.levelvector)
            coords, levels, _ = sim.sa.get_point_coord_for_each_dim(lv)
            sim.sa.grid.set_grid(coords, levels)
            for d in range(c["dim"]):
                key = (d, lv[d])
                if key in seen:
                    continue
                seen.add(key)
                w = np.asarray(sim.sa.grid.weights[d], dtype=float)
                ctx.side["weights_1d"] += 1
                fam = c["distributions"][d][0]
                sig = self.sig(sim, family=fam, finite_interval=bool(math.isfinite(c["a"][d]) and math.isfinite(c["b"][d])))
                if np.any(w < 0):
                    ctx.violate("weights_non_negative", sig, "dim %d level %d: negative weight %r" % (d, lv[d], float(w.min())), taint="weights")
                    return
                if abs(float(w.sum()) - 1.0) > 1e-9:
                    ctx.violate("weights_sum_to_one", sig, "dim %d level %d (%s on [%r, %r], boundary %s): weights sum to %r" % (
                        d, lv[d], c["distributions"][d], c["a"][d], c["b"][d], c["boundary"], float(w.sum())), taint="weights")
                    ctx.tainted.add("moments")     # (listed finding) without unit mass the moment identities fail as a consequence
                    return
                if fam == "Uniform" and c["boundary"]:
                    xs = [float(x) for x in coords[d]]
                    ref = np.asarray(GlobalTrapezoidalGrid.compute_weights(xs, c["a"][d], c["b"][d], False), dtype=float) / (c["b"][d] - c["a"][d])
                    if ref.shape != w.shape or not np.all(np.abs(ref - w) <= 1e-10):
                        ctx.violate("uniform_weights_are_trapezoid", sig, "dim %d level %d: weighted %s vs trapezoid/length %s" % (d, lv[d], w.tolist(), ref.tolist()), taint="weights")
                        return


class C15(Check):
    pid = "C15"
    runs = {"quick": 2500, "thorough": 30000}
    budget_s = {"quick": 90.0, "thorough": 900.0}
    block = 10
    run_timeout_s = 120.0
    real = ["GridOperation.UncertaintyQuantification", "UQDistribution", "Grid.GlobalTrapezoidalGridWeighted", "Function.FunctionConcatenate / FunctionPower",
            "SpatiallyAdaptiveSingleDimensions2 and its refinement containers", "chaospy distributions (Uniform, Triangle)", "scipy.stats.norm"]
    stub = ["model values (AffineModel: [g, c g + e, const], g keyed hash or smooth)", "error-estimator answers (keyed draws)", "clocks"]
    rule = ("schedule = distribution family per dimension (uniform, triangle, normal; finite, half-infinite or infinite support), parameters, boundary flag, "
            "affine map (c, e), constant, strategy options and benefit answers for 1-6 evaluations of the real dimension-wise loop on the weighted "
            "grid. After every evaluation the moment identities are checked on one and the same refined grid; after every refinement step every "
            "performed split is checked (strictly inside, equal probability halves within the measured accuracy of the family's inverse cdf). "
            "A state is the refined structure; distinct_nontrivial counts distinct refined structures. The 1-D weight clauses (non-negative, "
            "sum 1, uniform = trapezoid / length) are a stateless side-oracle on every 1-D grid reached, counted under pure_side_oracle_evaluations")
    expected_probes = ["rebalancing", "new_lmax", "operation_used_before_with_other_boundary_setting"]
    assumptions = ["the split bound is calibrated per split from the measured round-trip error |cdf(ppf(q)) - q| of the distribution, not guessed",
                   "splits of intervals whose probability mass underflows (< 1e-13) are only required to lie strictly inside (documented midpoint fallback)"]
    excluded_configs = ["Laplace (not among the families the statement names)", "infinite support with boundary points on (points at infinity)",
                        "modified basis (asserted to work with the uniform distribution only)"]

    def setup(self):
        import sparseSpACE.spatiallyAdaptiveSingleDimension2, sparseSpACE.GridOperation  # noqa
        import simcore.env  # noqa
        DS.install_observers()

    def gen(self, rk, tier, idx):
        r = stream(rk, "cfg")
        dim = r.choice([1, 2, 2, 3])
        boundary = r.random() < 0.5
        a, b, dist = [], [], []
        for d in range(dim):
            # with boundary points a normal distribution needs a finite interval, which is the known finding of this property
            # (truncated mass kept): drawn less often there so that most runs stay fully armed
            fam = r.choice(["Uniform", "Uniform", "Triangle", "Normal", "Normal"] if not boundary else ["Uniform", "Uniform", "Uniform", "Triangle", "Triangle", "Normal"])
            if fam == "Normal":
                mu, sigma = round(r.uniform(-1, 1), 2), r.choice([0.5, 1.0, 2.0])
                u = r.random()
                if not boundary and u < 0.5:
                    a.append(float("-inf")); b.append(float("inf"))
                elif not boundary and u < 0.7:      # half-infinite support
                    if r.random() < 0.5:
                        a.append(float("-inf")); b.append(round(mu + r.choice([0.5, 1.0, 2.0]) * sigma, 3))
                    else:
                        a.append(round(mu - r.choice([0.5, 1.0, 2.0]) * sigma, 3)); b.append(float("inf"))
                else:
                    a.append(round(mu - r.choice([1.0, 2.0, 4.0]) * sigma, 3)); b.append(round(mu + r.choice([1.0, 2.0, 4.0]) * sigma, 3))
                dist.append(["Normal", mu, sigma])
            else:
                lo = r.choice([0.0, -1.0, 2.0, -0.5])
                hi = lo + r.choice([1.0, 3.0, 0.5, 2.0])
                a.append(lo); b.append(hi)
                dist.append(["Uniform"] if fam == "Uniform" else ["Triangle", round(lo + (hi - lo) * r.choice([0.2, 0.5, 0.7]), 4)])
        if r.random() < 0.35:          # the same description in several dimensions (distribution objects are shared by description)
            dist = [list(dist[0]) if dist[0][0] != "Triangle" else list(dist[d]) for d in range(dim)]
            for d in range(dim):
                if dist[d][0] == "Normal" and not (math.isinf(a[0]) == math.isinf(a[d]) and math.isinf(b[0]) == math.isinf(b[d])):
                    a[d], b[d] = a[0], b[0]
                if dist[d][0] == "Uniform" and not (math.isfinite(a[d]) and math.isfinite(b[d])):
                    a[d], b[d] = 0.0, 1.0 + d
        for d in range(dim):
            if dist[d][0] in ("Uniform", "Triangle") and not (math.isfinite(a[d]) and math.isfinite(b[d])):
                a[d], b[d] = 0.0, 1.0
            if dist[d][0] == "Triangle" and not (a[d] < dist[d][1] < b[d]):
                dist[d][1] = round(0.5 * (a[d] + b[d]), 4)
        cfg = {"dim": dim, "a": a, "b": b, "distributions": dist, "boundary": boundary, "c": r.choice([2.0, -3.0, 0.5, -1.0, 10.0]),
               "e": r.choice([0.0, 1.5, -4.0, 100.0]), "const": r.choice([1.0, -2.5, 7.0]), "smooth": r.random() < 0.3,
               "volume_weighting": r.random() < 0.5, "margin": r.choice([0.0, 0.5, 0.9, 0.9, 1.0]), "rebalancing": r.random() < 0.3,
               "version": 6, "p_zero": r.choice([0.0, 0.3, 0.6]), "p_tie": r.choice([0.0, 0.2]), "lmin": 1, "lmax": r.choice([2, 2, 3]),
               "evals": r.randint(1, 6 if tier == "quick" else 9), "max_intervals": 30, "recalc": None, "clock_jumps": r.random() < 0.2}
        p = stream(rk, "prelude")
        cfg["prelude"] = p.choice([0, 12, 30]) if p.random() < 0.3 else 0     # point limit of an earlier run on the same operation object
        return {"config": cfg, "ops": []}

    def simplify(self, s):
        c = s["config"]
        if c.get("prelude"):
            n = copy.deepcopy(s); n["config"]["prelude"] = 0; yield n
        for key, v in (("rebalancing", False), ("volume_weighting", False), ("smooth", True), ("p_tie", 0.0), ("lmax", 2), ("e", 0.0), ("c", 2.0), ("clock_jumps", False)):
            if c[key] != v:
                n = copy.deepcopy(s); n["config"][key] = v; yield n
        if c["evals"] > 1:
            n = copy.deepcopy(s); n["config"]["evals"] -= 1; yield n
        if c["dim"] > 1:
            for keep in range(c["dim"]):
                n = copy.deepcopy(s)
                n["config"].update(dim=1, a=[c["a"][keep]], b=[c["b"][keep]], distributions=[c["distributions"][keep]])
                yield n

    def execute(self, sched, ctx):
        c = sched["config"]
        sim = UQSim(c, sched["rk"], ctx, [UQMonitor()])
        sim.build()
        try:
            sim.perform(tol=-1.0, max_evaluations=None, stop_after=c["evals"])
        except DS.StopRun:
            pass


CHECKS = {"C15": C15}
