#!/usr/bin/env python3
"""Writes /verif/MANIFEST.json from the table below (kept in one place so it stays valid)."""
import json, os
HERE = os.path.dirname(os.path.dirname(os.path.abspath(__file__)))

NA = {
 "C02": "Pure function of (dim, lmin, lmax, box, boundary flag, integrand): one perform_operation call on a fresh StandardCombi; no history, crash point, clock, cache or environment decision enters the statement, so deterministic simulation has nothing to schedule or fault.",
 "C08": "Pure function of (grid family, level vector, sub-box, boundary flag): points/weights/exactness of one setCurrentArea + query; nothing to schedule or fault.",
 "C09": "The statement itself says the weights depend only on the point set: a pure function of (sorted point set, interval, flags, order); refinement trees would only be an input generator.",
 "C10": "Hierarchise-then-interpolate and the basis identities are pure functions of (point set, order, values, evaluation point); no state survives between calls that the statement depends on.",
 "C11": "Romberg / balanced weights and tree completion are pure functions of (grid, levels, grouping/version options); the weight cache is not part of the statement.",
 "C16": "System matrix, right-hand side, hat evaluations and normalisation are pure functions of (data, grid, lambda, flags) for a single component grid.",
 "C20": "Normal equations, smoothing matrix and coefficient sums are pure functions of (data, targets, lambda, matrix choice, levels); no history or fault enters (and default construction does not run in the pinned environment).",
}

# pid -> (engine, level, technique, level text, level note, design ref)
CHECKS = {
 "C01": ("scheme_sim", "exploration",
         "deterministic simulation: seeded request histories (refinable, non-refinable, invalid, re-initialising) against the real CombiScheme with invariant monitors and a Moebius-inversion reference model after every step",
         "Seeded search over histories of update/init/query requests (all refinement orders and invalid-request classes reachable, d<=5, lmin<=3, lmax-lmin<=4, <=40 requests; the (d,lmin,lmax) grid is walked systematically first). After every request the statement's invariants are evaluated, the per-subspace inclusion-exclusion sums for every level vector of the bounding box, and the closed-form scheme at every (re-)initialisation - asked of a fresh non-adaptive object and of one long-lived non-adaptive object that answers closed-form requests with varying levels throughout the history. Sampling, not proof: a clean batch is evidence about the explored histories.",
         "Trusted: the harness' own invariant code and numpy integer arithmetic. No stub: CombiScheme runs real code.",
         "DESIGN.md section 5, C01"),
 "C03": ("dimwise_sim", "exploration",
         "deterministic simulation: the real dimension-wise adaptive loop driven by a simulated environment (keyed adversarial benefit answers, arbitrary-per-point integrand), combination monitor after every evaluation",
         "Seeded search over refinement histories (dim 1-4, versions 2/3/6/7/8, rebalancing and boundary on/off, margins, benefit answers with zeros/ties/single choices). After every evaluation every component grid is inspected through the public observation points: sorted 1-D point lists with the end points, dependence on (dimension, level) only, monotone growth, tensor structure, coefficient sum exactly 1 at every sparse-grid point, and reproduction of an arbitrary (hash-valued) function by the combined interpolant at every sparse-grid point. Sampling, not proof.",
         "Trusted: harness monitors, the keyed-hash integrand, numpy. Stubs: integrand values, error-estimator answers, clock. Everything else is the repository's code.",
         "DESIGN.md section 5, C03"),
 "C04": ("dimwise_sim+extendsplit_sim", "exploration",
         "deterministic simulation: refinement histories driven by simulated benefit answers with analytic exactness probes carried as extra output components; probe monitor after every evaluation",
         "Seeded search over refinement histories and strategy options of all three strategies; for the dimension-wise strategy basis functions and random combinations of the initial (lmin,lmax) sparse-grid space (affine functions with the modified basis), for extend-split and the cell strategy (lmin = lmax) random multilinear and affine functions are carried as extra components that never steer refinement, and their reported integrals and interpolated values are compared with analytic values after every evaluation. Known findings are keyed by oracle, version, whether a level raise / a rebalancing rotation touching the probe's support has happened, so any other loss of exactness is still a violation.",
         "Trusted: analytic hat/linear integrals in simcore/env.py (R-hier pieces), rounding bound. Stubs as C03.",
         "DESIGN.md section 5, C04"),
 "C06": ("dimwise_sim", "exploration",
         "deterministic simulation: the real refinement containers under adversarial benefit schedules (ties, zeros, single-interval, all-equal), structure monitor and split-set prediction (reference interval model) after every refine()",
         "Seeded search over benefit schedules and options (dim 1-4, margin, rebalancing, safety factor, versions). After every refinement step: tiling without gaps/overlaps in ascending order, shared end-point levels, end points level 0, binary level tree (also after rebalancing), coarsening level = lmax - max level >= 0, lmax >= deepest level, and the set of split intervals equals the prediction {benefit >= margin * max benefit} computed from the benefits read before the step (children = two halves at the midpoint). A quarter of the histories are interrupted by a point limit and continued (continue_adaptive_refinement or a new driver call handed the returned container); the structure clauses are also evaluated at every evaluation and at the return of a driver call. Sampling, not proof.",
         "Trusted: harness monitors. Stubs: error-estimator answers (the seam the property quantifies over), integrand values, clock.",
         "DESIGN.md section 5, C06"),
 "C07": ("extendsplit_sim", "exploration",
         "deterministic simulation: the real extend-split loop driven by simulated benefit answers (zeros, ties, single area), area monitor after every evaluation and refinement step",
         "Seeded search over extend-split histories (dim 2-3, versions 0-2, splits before extend, automatic decision, single-dimension splitting, boundary on/off). After every step: leaves are boxes inside the domain, pairwise disjoint interiors, volumes sum to the domain, every refined leaf is tiled by its children, coarsening >= 0, seeded points (interior, faces, corners, domain boundary) are assigned to exactly one containing leaf, per leaf the computed component grids have coefficient sum 1 at every grid point, and __call__ reproduces a hash-valued function at leaf grid points not shared with another leaf. Known findings (interpolation with boundary points off; automatic decision at lmin = lmax) are keyed by boundary flag, configuration class and failing function.",
         "Trusted: harness monitors. Stubs: error-estimator answers, integrand values, clock. The library's own error-estimate machinery (parent split/extend operations) runs as real code.",
         "DESIGN.md section 5, C07"),
 "C05": ("dimwise_sim", "exploration",
         "deterministic simulation: histories of run / stop at a point limit / continue on the real drivers (dimension-wise, extend-split, standard, dimension-adaptive) under simulated environments; at every stop the reported value is compared with independent recomputations and with from-scratch re-evaluation",
         "Seeded search over refinement histories with 1-3 stops through the documented limit mechanism, with recalculate_frequently forced to small periods in a share of runs (fast path skipped). At every stop: reported == sum of coefficient x component result recomputed independently (own composite trapezoid on the reported point lists for dimension-wise; a fresh grid instance and an un-cached integrand per leaf and component for extend-split, standard and dimension-adaptive), == evaluate_final_combi() twice (on a deep copy), == the same history with reevaluate_at_end=True, and sum w f over get_points_and_weights() for standard and dimension-wise. Three genuine defects found here were repaired (see known_findings.txt).",
         "Trusted: harness recomputation, magnitude-based rounding bound. Stubs: integrand values, error-estimator answers, dimension-adaptive surplus answers, clock.",
         "DESIGN.md section 5, C05"),
 "C13": ("dimwise_sim+extendsplit_sim", "exploration",
         "deterministic simulation: the real driver loop with the real error estimators on all three strategies under a hash-valued integrand; limits scheduled so that every stop rule bites, including limits placed exactly on values the run itself produces (learnt from an exploratory twin)",
         "Seeded search over (strategy, norm, reference vector, tol, min/max point limits). Observers count evaluate/refine calls and record result and the stub's own distinct-point count at every evaluation. Oracle: the run stops at the first index where (E<=tol and N>=min) or N>max, no refine after it, array lengths, monotone counts, non-negative errors/benefits, reported error equals the documented norm of the deviation at every evaluation, point counts equal the stub's distinct evaluations. 40% of runs put tol/min/max exactly onto E[k]/N[k] of the run to decide <= vs <.",
         "Trusted: harness oracle; the library's documented norm convention is taken as the definition. Stubs: integrand values, clock.",
         "DESIGN.md section 5, C13"),
 "C14": ("dimwise_sim+extendsplit_sim", "fault_enumeration",
         "deterministic simulation with fault injection: every crash point of each explored run is enumerated (stop by limits after evaluation k), with save / crash / restore (in-process and, thorough tier, in a fresh interpreter from the bytes only) and write faults (torn, short, ENOSPC, lost) on a simulated file system; oracle is the uninterrupted twin",
         "Configurations: dimension-wise (trapezoidal and, in a quarter of those runs, Lagrange / B-spline / high-order global grids), extend-split, cell and StandardCombi with Integration, and the dimension-wise strategy with UncertaintyQuantification on the weighted grid and with DensityEstimation (reuse caches on or off). For each seeded configuration the uninterrupted twin run defines evaluation indices 0..m; every k<m (sub-sampled above 10/16 and counted) is used as crash point with a fault kind drawn per (configuration,k). Final structure, scheme, lmax, point count (exact) and result (rounding bound) must equal the twin's; a restored instance must give bitwise the same interpolation, result and point count as the saved one; failed saves must raise and leave the live instance able to reach the twin's end state; incomplete files must be refused on restore.",
         "Trusted: SimFS semantics, dill itself. Not injected: bit flips inside a successfully written pickle (no integrity promise in the property). Stubs: file system, integrand values, keyed estimator answers without evaluation counter (real estimators in a third of the runs), clock.",
         "DESIGN.md section 5, C14"),
 "C12": ("function_sim", "exploration",
         "deterministic simulation: seeded interleavings of single / batch / vectorised evaluations, cache resets and cache deactivation against every built-in function family, with an un-cached twin and a dict+set reference cache as oracles",
         "Seeded search over (function family, parameters, history of <= 30 cache-relevant operations incl. empty batch, duplicates, repeated points, 2-D/3-D vectorised calls). Values equal the un-cached twin's eval at every position of every interleaving; shapes are (#points, output_length); the evaluation counter equals the reference cache's count while caching is on. The analytic-integral clause is a pure function and is evaluated as a stateless side-oracle on the same runs (counted separately): analytic integral over seeded boxes vs tensor Gauss-Legendre quadrature split at the family's kinks. Six slips found here were repaired.",
         "Trusted: harness twin/reference cache, Gauss-Legendre quadrature with 14 nodes per smooth piece (midpoint rule with 12% tolerance for the diagonal-discontinuity family, dim <= 3).",
         "DESIGN.md section 5, C12"),
 "C18": ("dataset_sim", "exploration",
         "deterministic simulation: seeded operation sequences (incl. invalid requests) on a pool of live DataSet objects against a multiset reference model with reference samples for revert",
         "Seeded search over initial data (0..40 samples, 1-4 dims, unlabelled samples, ties, duplicates) and <= 25 operations over a pool of up to six live, mutually derived sets, so that aliasing between a set and the sets derived from it is exercised. After every operation: scale maps extremes onto the range ends (affine), revert restores the reference samples (before the first scaling since the last overriding rescale), sample-moving operations preserve the (sample,label) multiset with labels attached (tolerant matching), derived sets carry the scaling attributes, concatenation across scalings and out-of-range removals are refused with the operands unchanged. shuffle() draws from the global PRNG, which the run seed owns. Five genuine defects found here were repaired.",
         "Trusted: the reference model in engines/dataset_sim.py. Exceptions on degenerate sets (empty, coinciding samples) are accepted when the set is unchanged. Revert is judged on sets whose membership did not change since the first scaling.",
         "DESIGN.md section 5, C18"),
 "C19": ("classification_sim", "exploration",
         "deterministic simulation: learn once on seeded data, then seeded histories of __call__ / test_data / evaluate / re-evaluation requests with data inside, partly outside and entirely outside the learned range; arg-max reference oracle under the learning-time scaling",
         "Seeded search over learning configurations (2-4 classes, split percentage, even/uneven split, shuffle via the seeded global PRNG, standard or dimension-wise learning) and call histories. Oracle: positions are re-scaled by the harness with the range and factor reported at learning time; returned classes must be a maximiser of the learned per-class densities for exactly the in-range (and, for test_data, labelled) samples; out-of-range samples are absent and all-out data is refused; summaries (wrong, total, percentage) of test_data and evaluate() are recomputed; classes recorded for earlier data are a stable prefix and re-evaluating earlier data gives the same classes; after continue_dimension_wise_refinement the classes recorded for the held testing samples are maximisers of the refined densities; a second learning call is refused.",
         "Trusted: harness re-scaling and the harness's own multilinear interpolation (scipy) of the per-grid coefficients, scheme and 1-D point lists the learned objects publish - the objects' own density answers are compared with it, not trusted. In a third of the runs the size threshold is moved through the guarded hook so that learning and evaluation use the large-grid implementations. Stubs: clock; global PRNG seeded by the run.",
         "DESIGN.md section 5, C19"),
 "C17": ("de_reuse_sim", "exploration",
         "deterministic simulation: twin executions of the same seeded refinement history with the caches on / off and with the size threshold moved through the guarded hook so that both implementations run on the same grids",
         "Seeded search over data sets (on grid lines / boundary, class labels), lambda, mass lumping, analytic (rarely numeric) entries and benefit schedules of the real dimension-wise loop. For every schedule five executions are compared after every evaluation (scheme, surpluses per component grid, interpolated densities): reuse off vs on (default threshold; a share of configurations reaches component grids beyond 200 points), small-grid vs large-grid implementation everywhere (threshold moved by SPARSESPACE_VERIF_DE_THRESHOLD), and reuse on with the right-hand-side reuse path forced. The right-hand-side reuse path was repaired in /repo (two fix: commits, see known_findings.txt) and is compared at full strength like the matrix-entry cache and the implementation equivalence; no known finding is listed for this property.",
         "Trusted: the reuse-off run as reference (its correctness is C16's subject, not applicable here). Bound 1e-8 relative for analytic entries, 2e-2 for numeric entries (calibrated quadrature accuracy).",
         "DESIGN.md section 5, C17"),
 "C15": ("uq_sim", "exploration",
         "deterministic simulation: refinement histories of the real dimension-wise strategy on the weighted grid under simulated benefit answers, with the original and the affinely transformed model carried as components of one vector-valued model",
         "Seeded search over distribution families per dimension (uniform, triangle, normal; finite and infinite support; equal descriptions in several dimensions with different intervals), boundary flag, affine map and benefit schedules. After every evaluation: E[cf+e]=cE[f]+e, Var[cf+e]=c^2 Var[f], Var>=0, constant model -> constant / zero variance, all on the same refined grid. After every refinement step every performed split lies strictly inside its interval and halves the probability within the measured round-trip accuracy of the family's inverse cdf (underflowing tails: strictly inside only). The 1-D weight clauses are pure functions and are evaluated as a stateless side-oracle on every 1-D grid reached (counted separately).",
         "Trusted: scipy/chaospy cdf and ppf as the definition of the distributions. Known finding: truncated normal mass with boundary points (keyed by family, finite interval, boundary).",
         "DESIGN.md section 5, C15"),
}

_P = "claimed by DESIGN.md but the check is not built yet in this tree; listed here until its engine is registered"
PENDING = {}

def main():
    checks = []
    for pid, (engine, level, tech, text, note, ref) in sorted(CHECKS.items()):
        checks.append({
            "property_id": pid,
            "quick_cmd": "./check %s quick" % pid,
            "thorough_cmd": "./check %s thorough" % pid,
            "evidence_file": "evidence/%s.json" % pid,
            "replay_cmd_template": "./check replay {path}",
            "engine": engine,
            "level_claimed": {"category": level, "text": text, "design_ref": ref},
            "level_note": note,
            "technique": tech,
        })
    engines = {}
    for pid, v in CHECKS.items():
        engines.setdefault(v[0], []).append(pid)
    na = [{"property_id": k, "reason": v} for k, v in sorted(NA.items())]
    na += [{"property_id": k, "reason": v} for k, v in sorted(PENDING.items()) if k not in CHECKS]
    m = {
        "version": 1,
        "setup_cmd": "./setup.sh",
        "hooks": {"guard": "SPARSESPACE_VERIF", "enable": "checks import sparseSpACE from /repo's working tree (or VERIF_REPO); all seams (clock, PRNGs, persistence, environment callbacks, observers) are installed from the harness at run time. One guarded knob exists in /repo: with SPARSESPACE_VERIF=1 the density-estimation size threshold (literal 200 in GridOperation.py) is read from SPARSESPACE_VERIF_DE_THRESHOLD; the C17 and C19 checks set both variables in-process for the executions that need it and clear them afterwards",
                  "baseline_off_cmd": "cd /repo && /venv/bin/python -m pytest -ra -q -p no:cacheprovider --timeout=900 --continue-on-collection-errors",
                  "source_commits": ["97887985b1757391439f768f668ee9af13e31c7c"], "add_only": True},
        "engines": [{"name": e, "path": "engines/%s.py" % e, "serves_properties": sorted(p),
                     "kind_free_text": "deterministic simulation engine (seeded schedules, fault injection, invariant monitors)"} for e, p in sorted(engines.items())],
        "checks": checks,
        "not_applicable": na,
        "notes": "Technique family: deterministic simulation with fault injection (hand-written simulator core in simcore/). Exit codes: 0 held, 1 VIOLATION, 2 HARNESS-ERROR. See DESIGN.md.",
    }
    with open(os.path.join(HERE, "MANIFEST.json"), "w") as f:
        json.dump(m, f, indent=1)
    print("MANIFEST.json written: %d checks, %d not applicable" % (len(checks), len(na)))

if __name__ == "__main__":
    main()
