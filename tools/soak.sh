#!/bin/bash
# tools/soak.sh <first seed> <last seed> [tier ...]  - runs every registered check for each seed and tier (default: thorough quick),
# prints one summary line per run plus any VIOLATION / HARNESS-ERROR lines. Evidence is not rewritten (VERIF_NO_EVIDENCE).
cd "$(dirname "$0")/.."
./setup.sh >/dev/null 2>&1
first=$1; last=$2; shift 2
tiers=${@:-thorough quick}
ids=$(python3 -c "import json;print(' '.join(c['property_id'] for c in json.load(open('MANIFEST.json'))['checks']))")
for seed in $(seq $first $last); do
  for tier in $tiers; do
    for id in $ids; do
      VERIF_SEED=$seed VERIF_NO_EVIDENCE=1 ./check $id $tier 2>&1 | grep -E -A4 "VIOLATION|HARNESS-ERROR|KNOWN-FINDING|$tier:" | cut -c1-600 | awk -v p="seed=$seed " '{print p $0}' | grep -v "KNOWN-FINDING" 
    done
  done
done
echo SOAK-DONE
