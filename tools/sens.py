#!/usr/bin/env python3
"""Sensitivity runner: applies one small change to a scratch copy of the repository (outside /repo and /verif),
runs a check against it through VERIF_REPO, expects a VIOLATION within the budget, removes the copy.

  tools/sens.py                      all mutants of sensitivity/mutants.json and all seeded/<id>/patch.diff
  tools/sens.py C06 C03              only those properties
  tools/sens.py -m <mutant id> ...   only those mutants
Options: --runs N (default: tier default), --tier quick|thorough, --jobs J (parallel mutants; each check then uses 16/J workers)
"""
import json, os, shutil, subprocess, sys, tempfile, glob, time
from concurrent.futures import ThreadPoolExecutor
HERE = os.path.dirname(os.path.dirname(os.path.abspath(__file__)))
REPO = "/repo"


def load():
    out = []
    p = os.path.join(HERE, "sensitivity", "mutants.json")
    if os.path.exists(p):
        for m in json.load(open(p)):
            m["kind"] = "replace"
            out.append(m)
    for meta in sorted(glob.glob(os.path.join(HERE, "seeded", "*", "meta.json"))):
        d = os.path.dirname(meta)
        mj = json.load(open(meta))
        out.append({"id": "seeded/" + os.path.basename(d), "property": mj["property"], "kind": "patch",
                    "patch": os.path.join(d, "patch.diff"), "note": mj.get("needs", "")})
    return out


def run_one(m, tier, runs, workers, seed):
    tmp = tempfile.mkdtemp(prefix="mut_", dir="/tmp")
    try:
        shutil.copytree(os.path.join(REPO, "sparseSpACE"), os.path.join(tmp, "sparseSpACE"),
                        ignore=shutil.ignore_patterns("__pycache__"))
        if m["kind"] == "replace":
            f = os.path.join(tmp, m["file"])
            s = open(f).read()
            if s.count(m["old"]) < 1:
                return m, "STALE", "pattern not found"
            s = s.replace(m["old"], m["new"], m.get("count", 1))
            open(f, "w").write(s)
        else:
            r = subprocess.run(["patch", "-p1", "-s", "-i", m["patch"]], cwd=tmp, capture_output=True, text=True)
            if r.returncode != 0:
                return m, "STALE", (r.stdout + r.stderr)[-300:]
        env = dict(os.environ, VERIF_REPO=tmp, VERIF_WORKERS=str(workers), VERIF_SEED=str(seed), VERIF_MIN_WALL="20")
        if runs:
            env["VERIF_RUNS"] = str(runs)
        env["VERIF_NO_EVIDENCE"] = "1"
        env["VERIF_REPLAY_DIR"] = os.path.join(tmp, "replays")
        t = time.time()
        r = subprocess.run([os.path.join(HERE, "check"), m["property"], tier], env=env, capture_output=True, text=True, timeout=3600)
        lines = [l for l in r.stdout.splitlines() if l.startswith("VIOLATION") or l.startswith("  oracle=") or l.startswith("HARNESS")]
        status = {0: "MISSED", 1: "CAUGHT", 2: "HARNESS-ERROR"}.get(r.returncode, "rc=%d" % r.returncode)
        if m.get("expect") == "missed":
            status = {"MISSED": "QUIET-OK", "CAUGHT": "FALSE-ALARM"}.get(status, status)
        return m, status, "%.0fs %s" % (time.time() - t, " | ".join(lines[:3])[:400])
    finally:
        shutil.rmtree(tmp, ignore_errors=True)


def main(argv):
    tier, runs, jobs, seed = "quick", 0, 4, 0
    sel_p, sel_m = [], []
    i = 1
    while i < len(argv):
        a = argv[i]
        if a == "--tier": tier = argv[i + 1]; i += 2
        elif a == "--runs": runs = int(argv[i + 1]); i += 2
        elif a == "--jobs": jobs = int(argv[i + 1]); i += 2
        elif a == "--seed": seed = int(argv[i + 1]); i += 2
        elif a == "-m": sel_m.append(argv[i + 1]); i += 2
        else: sel_p.append(a); i += 1
    ms = [m for m in load() if (not sel_p or m["property"] in sel_p) and (not sel_m or m["id"] in sel_m)]
    workers = max(1, 16 // max(1, min(jobs, len(ms) or 1)))
    res = []
    with ThreadPoolExecutor(max_workers=jobs) as ex:
        for m, status, info in ex.map(lambda m: run_one(m, tier, runs, workers, seed), ms):
            print("%-14s %-4s %-28s %s" % (status, m["property"], m["id"], info), flush=True)
            res.append((m["id"], status))
    missed = [i for i, s in res if s not in ("CAUGHT", "QUIET-OK")]
    print("caught %d of %d; not caught: %s" % (len(res) - len(missed), len(res), missed))
    return 1 if missed else 0


if __name__ == "__main__":
    sys.exit(main(sys.argv))
