#!/usr/bin/env python3
"""tools/mk_round.py <round> [Cxx ...] - creates one scratch worktree of /repo per property under /tmp/wt<round>_<id> and the
sub-agent prompt /tmp/prompts<round>/<id>.txt (property text + instructions + the 'needs' lines of the changes already stored for
that property as a hint to pick another mechanism). Nothing from /verif's machinery enters the prompt."""
import glob, json, os, subprocess, sys
HERE = os.path.dirname(os.path.dirname(os.path.abspath(__file__)))
rnd = sys.argv[1]
props = {json.loads(l)["id"]: json.loads(l) for l in open(os.path.join(HERE, "properties.jsonl"))}
claimed = [c["property_id"] for c in json.load(open(os.path.join(HERE, "MANIFEST.json")))["checks"]]
ids = sys.argv[2:] or claimed
needs = {}
for m in sorted(glob.glob(os.path.join(HERE, "seeded", "*", "meta.json"))):
    j = json.load(open(m)); needs.setdefault(j["property"], []).append(j["needs"])
tmpl = open(os.path.join(HERE, "tools", "seed_agent_prompt.txt")).read()
os.makedirs("/tmp/prompts%s" % rnd, exist_ok=True)
for i in ids:
    wt = "/tmp/wt%s_%s" % (rnd, i)
    if not os.path.exists(wt):
        subprocess.run(["git", "-C", "/repo", "worktree", "add", "--detach", "-f", wt, "HEAD"], check=True, capture_output=True)
    p = props[i]
    text = "%s - %s\nStatement: %s\nQuantifier: %s\nWhy the existing tests cannot settle it: %s\nAnchors: %s" % (
        i, p["title"], p["statement"], p["quantifier"]["text"], p.get("why_tests_cant", ""), json.dumps(p.get("anchors", {}).get("files", [])))
    hint = "\n\nHint: changes of the following kinds have already been studied for this property - choose a DIFFERENT mechanism, code path or option combination:\n" + "\n".join("  - " + n[:260] for n in needs.get(i, []))
    open("/tmp/prompts%s/%s.txt" % (rnd, i), "w").write(tmpl.replace("{WT}", wt).replace("{PROP}", text) + hint + "\n")
    print(i, wt)
