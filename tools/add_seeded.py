#!/usr/bin/env python3
"""tools/add_seeded.py <id> <property> <worktree> "<needs>"  - confirm a sub-agent's change (demo fails with it, passes
without it, relevant baseline tests pass) in a scratch copy and store it as seeded/<id>/ (patch.diff, demo, meta.json)."""
import json, os, shutil, subprocess, sys, tempfile
HERE = os.path.dirname(os.path.dirname(os.path.abspath(__file__)))
sid, prop, wt, needs = sys.argv[1:5]
tests = sys.argv[5:] 
d = os.path.join(HERE, "seeded", sid)
os.makedirs(d, exist_ok=True)
diff = subprocess.run(["git", "-C", wt, "diff", "--", "sparseSpACE"], capture_output=True, text=True).stdout
open(os.path.join(d, "patch.diff"), "w").write(diff)
demo = open(os.path.join(wt, "demo_seeded.py")).read().replace(wt, "__WT__")
open(os.path.join(d, "demo_seeded.py"), "w").write(demo)
ran = []
def run_demo(with_patch):
    tmp = tempfile.mkdtemp(prefix="seedchk_", dir="/tmp")
    try:
        shutil.copytree("/repo/sparseSpACE", os.path.join(tmp, "sparseSpACE"), ignore=shutil.ignore_patterns("__pycache__"))
        shutil.copytree("/repo/test", os.path.join(tmp, "test"), ignore=shutil.ignore_patterns("__pycache__"))
        if with_patch:
            r = subprocess.run(["patch", "-p1", "-s", "-i", os.path.join(d, "patch.diff")], cwd=tmp, capture_output=True, text=True)
            assert r.returncode == 0, r.stdout + r.stderr
        open(os.path.join(tmp, "demo_seeded.py"), "w").write(demo.replace("__WT__", tmp))
        r = subprocess.run(["/venv/bin/python", "demo_seeded.py"], cwd=tmp, capture_output=True, text=True, timeout=1800)
        out = {"demo_exit": r.returncode, "tail": (r.stdout + r.stderr)[-400:]}
        if with_patch and tests:
            t = subprocess.run(["/venv/bin/python", "-m", "pytest", "-q", "-p", "no:cacheprovider", "--timeout=900"] + tests, cwd=tmp, capture_output=True, text=True, timeout=3000)
            out["tests"] = t.stdout.strip().splitlines()[-1] if t.stdout.strip() else t.stderr[-200:]
        return out
    finally:
        shutil.rmtree(tmp, ignore_errors=True)
w = run_demo(True); wo = run_demo(False)
ok = w["demo_exit"] == 1 and wo["demo_exit"] == 0
meta = {"property": prop, "needs": needs, "origin": "written by an independent sub-agent that saw only the property text and its own scratch worktree",
        "confirmed": {"demo_with_change": w, "demo_without_change": wo, "baseline_tests_with_change": w.get("tests"), "relevant_tests": tests,
                      "how": "tools/add_seeded.py: scratch copy of /repo/sparseSpACE + test, patch applied with patch -p1, demo run with and without"},
        "kept": ok}
json.dump(meta, open(os.path.join(d, "meta.json"), "w"), indent=1)
print(sid, "confirmed" if ok else "NOT CONFIRMED", w["demo_exit"], wo["demo_exit"], w.get("tests"))
